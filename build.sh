#!/bin/bash
# build.sh <outdir> [tags] : instrument /repo into an overlay and build the simulation test binary.
# Exit 2 on any build trouble.
set -u
export GOFLAGS=-mod=mod GOPROXY=off GOSUMDB=off GOTOOLCHAIN=local
OUT=$1; TAGS=${2:-}
REPO=${VERIF_REPO:-/repo}
V="$(dirname "$(readlink -f "$0")")"
mkdir -p "$OUT" || exit 2
[ -x $V/bin/verifinst ] || (cd $V/verifinst && go build -o $V/bin/verifinst .) || exit 2
ADDS=()
for f in $V/harness/internal/*.go; do ADDS+=(-add "$REPO/$(basename $f)=$f"); done
for f in $V/harness/ext/*.go; do [ -e "$f" ] && ADDS+=(-add "$REPO/$(basename $f)=$f"); done
$V/bin/verifinst -repo "$REPO" -out "$OUT" -tags "$TAGS" -pkg . -pkg ./roaring -pkg ./boltdb -pkg ./http -pkg ./syswrap -pkg ./ctl -stubtests . "${ADDS[@]}" > "$OUT/inst.out" 2> "$OUT/inst.err" || { cat "$OUT/inst.err"; echo "BUILD-FAIL: instrumentation"; exit 2; }
{ cat "$REPO/go.mod"; echo; echo 'require verif/simrt v0.0.0'; echo "replace verif/simrt => $V/simrt"; echo 'require github.com/anishathalye/porcupine v1.3.0'; } > "$OUT/go.mod"
cat "$REPO/go.sum" $V/extra.sum 2>/dev/null | sort -u > "$OUT/go.sum"
cd "$REPO" && go1.26.8 test -c -vet=off -tags "$TAGS" -modfile="$OUT/go.mod" -overlay="$OUT/overlay.json" -o "$OUT/sim.test" . > "$OUT/build.out" 2>&1 || { tail -40 "$OUT/build.out"; echo "BUILD-FAIL: compile"; exit 2; }
echo "built $OUT/sim.test"
