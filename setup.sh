#!/bin/bash
# Builds the framework tools from files on disk only (offline).
set -e
export GOFLAGS=-mod=mod GOPROXY=off GOSUMDB=off GOTOOLCHAIN=local
cd "$(dirname "$0")"
mkdir -p bin evidence replays
(cd verifinst && go build -o ../bin/verifinst .)
# warm the go1.26.8 build cache for the instrumented packages
./build.sh /dev/shm/verif-setup-$$ >/dev/null 2>&1 || ./build.sh /dev/shm/verif-setup-$$
rm -rf /dev/shm/verif-setup-$$
echo setup ok
