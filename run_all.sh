#!/bin/bash
# run_all.sh <tier> <seed> [workers] [budget] : runs every claimed property's check in turn; prints one line per property.
cd "$(dirname "$(readlink -f "$0")")"
TIER=${1:-quick}; SEED=${2:-1}; W=${3:-14}; B=${4:-}
rc=0
for p in $(python3 -c "import props; print(' '.join(sorted(p for p in props.PROPS if p.startswith('C'))))"); do
  if [ -n "$B" ]; then ./check $p --tier $TIER --seed $SEED --workers $W --budget $B > /tmp/run_all_$p.log 2>&1; else ./check $p --tier $TIER --seed $SEED --workers $W > /tmp/run_all_$p.log 2>&1; fi
  e=$?
  echo "$p exit=$e $(grep -E '^C[0-9]+ tier=' /tmp/run_all_$p.log | tail -1)"
  grep -E '^(VIOLATION|HARNESS|KNOWN-FINDING)' /tmp/run_all_$p.log | cut -c1-200 | sort | uniq -c | head -8
  [ $e -ne 0 ] && rc=$e
  rm -f /tmp/run_all_$p.log
done
exit $rc
