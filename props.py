# Static per-property descriptions used by the driver for evidence files.
L2_REAL = ["roaring.Bitmap (file-backed B-tree containers, op log)", "fragment (all write/read paths, snapshot, mmap, row cache, rank/LRU cache)", "snapshot queue workers (real goroutines, scheduled by the simulator)", "real files on tmpfs through intercepted os/syswrap calls"]
L2_STUB = ["view/field/holder above the fragment (harness constructs the fragment directly)", "stats, logger, tracing (no-op implementations shipped with pilosa)"]
COMMON_ASSUME = [
    "verifinst rewrites (sync, go, fs, map-range, channel yields) preserve the semantics of the instrumented source",
    "interleavings finer than instrumented yield points (lock/unlock, channel op, fs op, goroutine start, rpc) are not explored",
    "Go 1.26.8 runtime and testing/synctest fake clock behave as documented",
]

def P(level, rule, real, stub, budget=(40, 900), extra_assume=(), tags=""):
    return {"level": level, "rule": rule, "real": real, "stub": stub, "budget": {"quick": budget[0], "thorough": budget[1]},
            "assumptions": COMMON_ASSUME + list(extra_assume), "tags": tags}

PROPS = {
    "C07": P("exploration",
             "Each evaluation is one seeded plan: a fragment kind (set/mutex/bool/int), tuning knobs (cache type/size, MaxOpN, snapshot queue workers/depth, shard), 5-75 operations over every write path and read path with forced snapshots, reopen and cache flushes, and a PCT or random schedule for the background snapshot workers; after every operation the return value and the generated reads are compared with a map model.",
             L2_REAL, L2_STUB),
    "C29": P("exploration",
             "Each evaluation is one seeded plan: 2-4 client tasks with 2-7 operations each (bit writes, imports, row store/clear, roaring imports, reads, snapshot, cache flush/recalculate, checksum and TopN requests) on one shared fragment plus background snapshot workers, executed under a PCT schedule with 1-6 change points or a random walk, at lock/cond/channel/file-operation granularity; invoke/return events are stamped with the simulator's global event counter and the history (plus a final full-state read) is checked for linearizability against a sequential bit-set model with porcupine; deadlock = clients stuck at quiescence; panic = recovered in the client task or child death.",
             L2_REAL, L2_STUB, extra_assume=["the data-race clause of C29 is not decided by the controlled stage: single-runner scheduling serialises all accesses"]),
    "C09": P("fault_enumeration",
             "Each evaluation is one seeded write history (2-25 ops over every fragment write path, forced snapshots, reopen, optional background snapshot workers) executed once while a crash image of the data directory is captured at EVERY intercepted file-system operation boundary (create, open-with-create/truncate, write, rename, remove, truncate; each write(2) of the op log, snapshot file and cache file is a boundary); every image is then opened by a fresh fragment, with and without leftover .snapshotting files, and its logical state must equal the model before or after the operation in flight.",
             L2_REAL, L2_STUB),
    "C10": P("exploration",
             "Each evaluation is one seeded plan of fragment writes through every path interleaved with checksum requests (which populate the per-block cache the next write must invalidate), snapshots and reopen; oracle: Blocks() equals Blocks() recomputed after InvalidateChecksums(), lists exactly the model's non-empty blocks, equals the checksum list of a twin fragment built from the model contents through another path, and differs in exactly one block after one bit of the twin is flipped.",
             L2_REAL, L2_STUB),
    "C12": P("exploration",
             "Each evaluation is one seeded plan of writes on a set fragment with ranked/LRU caches of size 1, 3 or 50000, clock advances inside/past the 10 s rank-cache damping window, snapshots and reopen (cache reload), interleaved with top() calls with and without ids, filter row and threshold; oracle: every reported count for requested ids equals the model row count (within the filter); TopN(n) after RecalculateCache, when every row ever written fits in the cache, equals the n largest model counts in non-increasing order.",
             L2_REAL, L2_STUB),
    "C13": P("exploration",
             "Each evaluation is one seeded plan of Set/Clear/Import on a mutex or bool fragment over 2-3 columns so that batches repeat a column with conflicting rows and hit columns that already hold a value, with snapshots and reopen; oracle after each step: every column holds at most one row and it is the row of the model's last write.",
             L2_REAL, L2_STUB),
}

# Manifest texts for claimed properties.
MAN = {
    "C07": {"text": "Seeded exploration of write/read histories on a real fragment with forced and background snapshots under controlled schedules; every read and change flag is compared with a map model after every step.",
            "note": "Samples histories (<=75 ops, <=5 rows, <=8 columns concentrated on container and shard edges); trusts the instrumentation overlay and the model in harness/internal/zz_verif_l2_test.go."},
    "C29": {"text": "Seeded search over lock-granularity interleavings of concurrent fragment operations; recorded histories checked for linearizability (porcupine), deadlock and panic.",
            "note": "Histories are short (<=28 ops, 2 rows x 2-3 columns); porcupine timeouts are counted as inconclusive, never reported; data races in the Go memory-model sense are outside what a single-runner simulation can observe (see DESIGN.md C29)."},
    "C09": {"text": "Per generated history, exhaustive enumeration of crash points at file-system-operation granularity (process-kill model), each recovered by real reopen code and compared with the model; seeded exploration over histories.",
            "note": "Process-kill model as stated by C09 (completed syscalls persist; no page-cache loss or reordering). bolt-backed attribute stores are outside C09's statement. A write(2) is atomic in the model (boundaries only, no torn single write)."},
    "C10": {"text": "Seeded exploration of write histories interleaved with checksum requests; cached checksums compared with recomputed ones, with the model's block list and with a twin fragment.",
            "note": "Hash collisions ignored; no re-implementation of the block hash (the implementation's own hasher is the reference for equal/different); samples histories of <=35 ops."},
    "C12": {"text": "Seeded exploration of write histories and cache configurations with simulated-clock control of the rank-cache damping window; reported counts compared with model row counts.",
            "note": "Fragment-level top() only in this check (PQL TopN two-pass merge is exercised by the cluster checks); TopN(n) judged only when all rows ever written fit in the cache, as the property states."},
    "C13": {"text": "Seeded exploration of mutex/bool write histories with conflicting batches; invariant (<=1 row per column, equal to last write) checked after every step.",
            "note": "Fragment-level (Set/Clear/Import paths below the field); field/executor level covered by the node-level checks."},
}

_PENDING = "not yet implemented in this revision of /verif (planned in DESIGN.md section 6); not claimed"
NA = {("C%02d" % i): _PENDING for i in range(1, 32)}
NA["C01"] = "pure functions of their arguments: no schedule, clock, I/O, fault or multi-party behaviour for a simulator to control (DESIGN.md section 6, C01)"
NA["C31"] = "configuration precedence is a pure function of flags, environment and file; nothing for a deterministic simulator to schedule or fault (DESIGN.md section 6, C31)"

# ---- L1 (bitmap store) -------------------------------------------------------
L1_REAL = ["roaring.Bitmap with slice and B-tree container collections, op log writer, UnmarshalBinary (Pilosa and official formats), ImportRoaringBits, RemapRoaringStorage, Optimize, all read paths and the set kernels used for derivation"]
L1_STUB = ["the fragment file is a byte buffer owned by the harness (append = op log write, replace = snapshot); munmap is emulated by overwriting the released bytes", "payloads are produced by the independent encoder simrt/roaringenc.go"]
PROPS["C02"] = P("exploration",
    "Each evaluation is one seeded history of 5-45 operations on one bitmap (mostly B-tree, some slice containers): point and batch add/remove with duplicates and unsorted input, roaring imports (set/clear) in 7 encodings (Pilosa auto/bitmap/array/run, official without runs, with run cookie, all-run), Optimize, and storage events snapshot (encode, remap to the new bytes, scribble the released mapping), reopen (decode the file bytes into a fresh bitmap that continues the history), unmap; values concentrated on 1-3 container keys including key 0 with lengths crossing the 4096-value and 2048-run thresholds; after each step all read paths (Slice, Count, Any, ForEach, Iterator Seek/Next, per-container N, Min, Max, Contains, CountRange, SliceRange) are compared with a set model and each mutation's change count with the model's.",
    L1_REAL, L1_STUB, budget=(30, 600))
PROPS["C03"] = P("exploration",
    "Each evaluation is one seeded history on one bitmap that derives values (Clone, Freeze, Union, Intersect, Difference, Xor, OffsetRange window, other.Union(b)), records their contents as observed at derivation, then mutates the source, snapshots (remap + scribble of the released mapping), reopens, unmaps, or mutates a derived value, and re-reads both sides: derived values must read exactly as recorded and the source must equal the model.",
    L1_REAL, L1_STUB, budget=(30, 600))
PROPS["C04"] = P("exploration",
    "Each evaluation is one seeded sequence of: decode of independently encoded bytes (7 encodings, both container collections) twice from the same buffer with a checksum of the buffer before and after; encode/decode round trips of the live bitmap including flags; imports (set/clear) of encoded payloads into arbitrary target states with exact change counts; with snapshot/reopen in between. Thorough tier adds 2^16-container official payloads.",
    L1_REAL, L1_STUB, budget=(30, 600))
PROPS["C05"] = P("exploration",
    "Each evaluation is one seeded history of 3-32 logged mutations (adds, removes, batches with duplicates, removals of absent values, imports that change nothing, re-encoding by snapshot, reopen); after EVERY operation the simulated file (snapshot bytes + appended op log) is decoded into a fresh bitmap which must equal the model set, and its operation/bit-change counters must equal the live bitmap's.",
    L1_REAL, L1_STUB, budget=(30, 600))
MAN["C02"] = {"text": "Seeded exploration of mutation/read histories on one bitmap with storage events (snapshot/remap, reopen, unmap) injected between operations; every read path compared with a set model after every step.",
              "note": "Histories <=45 ops on <=3 containers; single caller, so no scheduler involvement; storage events are the only faults."}
MAN["C03"] = {"text": "Seeded exploration of derive-then-mutate/snapshot/reopen histories; derived values compared with their recording, sources with the model; released mappings are overwritten so that any surviving alias is visible.",
              "note": "This check covers the bitmap half (roaring kernels). Fragment rows are covered by C07/C29 (row cache, real mmap: a SIGSEGV on an unmapped page kills the child and is reported) and query results by the node-level checks."}
MAN["C04"] = {"text": "Seeded exploration over encodings and target states; what simulation adds over input generation is the reuse of one buffer across decode, import, log and replay, and the storage events in between.",
              "note": "The quantifier is over inputs: sampled, not enumerated. The encoder is independent of the implementation (written from the format descriptions)."}
MAN["C05"] = {"text": "Seeded exploration of logged histories with a replay of the file after every operation.",
              "note": "Writer faults (failed or short writes) are not injected here; crash truncation at write boundaries is C09's business."}

L4_REAL = ["pilosa.Server, Holder, Index, Field, view, fragment, executor, cluster, API, TranslateFile, boltdb attribute stores", "http.Handler (real router, decoding, encoding) and http.InternalClient over the simulated transport", "encoding/proto Serializer", "real files on tmpfs through intercepted os calls"]
L4_STUB = ["network: http.RoundTripper that calls the destination node's handler in-process (simrt/net.go)", "membership: gossip/memberlist replaced by a stub that delivers NodeEvent/NodeStatus through API.ClusterMessage", "stats, logger, tracing, diagnostics, GC notifier: no-op implementations shipped with pilosa"]
PROPS["L4S"] = P("exploration", "smoke test of the cluster harness (not a property)", L4_REAL, L4_STUB, budget=(15, 60))

PROPS["C15"] = P("exploration",
    "Each evaluation is one seeded plan on a 1-4 node cluster (ReplicaN 1-2, executor pool 1/2/8/default): a schema with set, time, int, mutex and bool fields (existence tracking on or off), 10-90 operations mixing writes through every path (Set/Clear/ClearRow/Store PQL, Import, ImportValue, ImportRoaring in three encodings) on columns straddling shard and container edges of up to 4 shards, and generated expression trees (depth <= 3, arity <= 3) over Row (plain, aligned time range, integer condition), Union, Intersect, Difference, Xor, Not, Shift and Count issued to any node; every answer is compared with the model's evaluation of the same tree over logical column sets.",
    L4_REAL, L4_STUB, budget=(45, 900))
MAN["C15"] = {"text": "Seeded exploration of datasets, write paths and expression trees on simulated 1-4 node clusters; results compared with a set-algebra model.",
              "note": "Expression trees are bounded (depth 3, arity 3); ClearRow/Store only with ReplicaN=1 (DESIGN appendix A). The model uses plain integer comparison and timestamp-in-range semantics."}

_DB_COMMON = " Operations mix writes through every path (Set/Clear PQL, Import, ImportValue, ImportRoaring) with the property's queries, issued to any node; every answer is compared with a plain model of the logical database."
PROPS["C14"] = P("exploration", "Each evaluation is one seeded plan on a 1-3 node cluster: int fields with bounds from a biased set (0-based, negative-only, straddling 0, min=max, +-2^62), values written by Set and ImportValue (overwrites, clears) across shards with deliberate ties; for small ranges one column per representable value; predicates for ==, !=, <, <=, >, >=, between and not-null inside, at and beyond the bit-depth range and the declared bounds; Sum/Min/Max with and without filter; single-node runs restart in between." + _DB_COMMON, L4_REAL, L4_STUB, budget=(45, 900))
PROPS["C16"] = P("exploration", "Each evaluation is one seeded plan on a 1-3 node cluster with set/mutex/bool/time fields over rows {0,1,2,3,7,100,101}: Rows with previous, limit, column and time range; Rows paging loops run to exhaustion; GroupBy over one or two fields with filter, limit and offset, and limit/offset paging loops concatenated; MinRow/MaxRow with and without filter, including after the maximum row was cleared." + _DB_COMMON, L4_REAL, L4_STUB, budget=(45, 900))
PROPS["C17"] = P("exploration", "Each evaluation is one seeded plan on a 2-5 node cluster, ReplicaN 1-3, executor pool 1/2/8/16, under a PCT or random schedule that permutes the completion order of per-node mapper goroutines and local shard workers: the same read query (Row trees, Count, Sum/Min/Max with values tied across shards, MinRow/MaxRow, Rows, GroupBy, TopN(ids)) is issued with every node as coordinator; all answers must equal each other and the model." + _DB_COMMON, L4_REAL, L4_STUB, budget=(45, 900))
PROPS["C18"] = P("exploration", "Each evaluation is one seeded plan with time fields of all 10 quanta (with and without standard view): timestamped sets spread over a 3-year window including month ends, year ends and the leap day; Row and Rows queries over ranges aligned to the quantum's finest unit (short, 40-unit and multi-year), open-ended ranges (to = simulated clock + 1 day), clock jumps and restarts in between; a column is expected iff one of its timestamps lies in the range." + _DB_COMMON, L4_REAL, L4_STUB, budget=(45, 900))
PROPS["C19"] = P("exploration", "Each evaluation is one seeded plan on a 1-3 node cluster (ReplicaN 1-2) with one time field of a random quantum: several timestamped sets of one (row, column) plus sets of other rows/columns creating sibling views, optional restart, then Clear, then range queries over random aligned sub-ranges, the whole window and the standard view: the column must be absent from every answer." + _DB_COMMON, L4_REAL, L4_STUB, budget=(45, 900))
PROPS["C08"] = P("exploration", "Each evaluation is one seeded plan on one node: schema with set/int/time/mutex/bool fields and random options (cache type/size, int bounds excluding zero, all time quanta, noStandardView, existence tracking), data written through every path, and several clean restarts (Server.Close + reopen of the same directory); a battery of queries over every field (rows, values, ranges, Sum/Min/Max, time ranges, Rows, MinRow/MaxRow, TopN(ids), Not) runs before and after each restart and must equal the model both times." + _DB_COMMON, L4_REAL, L4_STUB, budget=(45, 900))
MAN["C14"] = {"text": "Seeded exploration of integer fields (bounds, values, predicates, aggregates) on simulated clusters with restarts; compared with a column->value map.", "note": "Sampling, not the per-bit-depth exhaustive enumeration the quantifier names; the Go-API path (Field.Range/Sum/Min/Max) is exercised only through the executor."}
MAN["C16"] = {"text": "Seeded exploration of Rows/GroupBy/MinRow/MaxRow with paging loops on simulated clusters; compared with the model, pages concatenated and compared with the unpaged result.", "note": "GroupBy over at most two fields; previous= paging of GroupBy not generated."}
MAN["C17"] = {"text": "Seeded search over completion orders (schedules), coordinators and cluster shapes for every reducer kind; all answers compared with each other and the model.", "note": "Orders are sampled by PCT/random scheduling of mapper goroutines, not enumerated; the algebraic-law clause of the quantifier is covered only through these executions."}
MAN["C18"] = {"text": "Seeded exploration of time-range queries over all quanta with simulated clock control; compared with timestamp-in-range semantics.", "note": "Sampling of a 3-year window, not the exhaustive enumeration named by the quantifier; view-name-to-interval mapping is checked only through query answers."}
MAN["C19"] = {"text": "Seeded exploration of set/clear histories on time fields; after Clear the column must be absent from every sampled range.", "note": "Ranges are sampled; forwarded clears on replicas included."}
MAN["C08"] = {"text": "Seeded exploration of schema/data histories with clean restarts at arbitrary points; a query battery compared with the model before and after.", "note": "Keys and attributes are covered by C24/C25; unkeyed indexes here."}

# argument-list shrinking: op name -> (fixed prefix length, group size)
_L2_ARGS = {"import": (1, 2), "iroaring": (2, 2), "importval": (1, 2), "setrow": (1, 1)}
_L1_ARGS = {"addn": (0, 2), "removen": (0, 2), "import": (2, 2), "decode": (1, 2), "derive": (1, 2)}
_DB_ARGS = {"import": (2, 3), "importval": (2, 2), "iroaring": (3, 2)}
for _p in ("C07", "C09", "C10", "C12", "C13", "C29"):
    PROPS[_p]["shrink_args"] = _L2_ARGS
for _p in ("C02", "C03", "C04", "C05"):
    PROPS[_p]["shrink_args"] = _L1_ARGS
for _p in ("C08", "C14", "C15", "C16", "C17", "C18", "C19"):
    PROPS[_p]["shrink_args"] = _DB_ARGS

PROPS["C28"] = P("exploration", "Each evaluation is one seeded plan on a 1-3 node cluster (ReplicaN 1-2): for each of set/mutex/bool/time/int a pair of twin fields with identical options; every logical write (bit set/clear with optional timestamp, integer value set/clear) is applied to both twins through independently drawn paths (Set/Clear PQL, Import set/clear by ids, ImportValue, ImportRoaring in Pilosa or official encoding into the standard view or into every time view of the timestamp); expression trees, Count, Sum/Min/Max, Rows (with time ranges) and TopN(ids) are then run on both twins; the two answers must be equal and equal to the model.", L4_REAL, L4_STUB, budget=(45, 900))
PROPS["C28"]["shrink_args"] = {}
MAN["C28"] = {"text": "Seeded exploration of path mixtures on twin fields of simulated clusters; twin answers compared with each other and with the model.", "note": "Import by keys is covered by C24/C30; clears on time fields only through Clear() (timestamped clear-imports are rejected by design)."}

C24_REAL = ["pilosa.TranslateFile (primary and replica): log append through bufio, mmap replay, hash index growth, replication loop with retry timer", "real files on tmpfs through intercepted os calls"]
C24_STUB = ["the HTTP stream between primary and replica is replaced by an in-process reader over TranslateFile.Reader that can be cut after any number of bytes", "executor/API key translation call sites (exercised by C26/C30)"]
PROPS["C24"] = P("exploration", "Each evaluation is one seeded plan: 1-3 client tasks issue batches of column and row keys (repeats inside a batch, empty key, 4090- and 5000-byte keys, Unicode, quotes; 300-key batches in some plans to cross the table-growth threshold) in up to 4 namespaces to a primary TranslateFile, interleaved at lock granularity under PCT/random schedules; a replica TranslateFile streams the primary's log through a reader cut after 0..6000 bytes (entry boundaries and mid-entry), reconnecting after the simulated 1 s retry interval; primary and replica are restarted between batches. Oracle: every key maps to one positive id forever, ids are injective per namespace, repeats inside a batch agree, reverse lookup returns the key, the mapping is identical after restart, and within 30 simulated seconds after the last fault the replica's forward and reverse mappings equal the primary's.", C24_REAL, C24_STUB, budget=(40, 900))
PROPS["C24"]["shrink_args"] = {"tr": (0, 1)}
MAN["C24"] = {"text": "Seeded search over interleavings of concurrent translate batches, restarts and stream cuts on a real primary/replica pair of translate stores; stability, injectivity, reverse lookup, restart equality and bounded-time replica convergence are checked.", "note": "Store-level: the HTTP transport of the log stream is stubbed by an in-process cut-able reader; hash collisions are not specifically provoked."}
