# Static per-property descriptions used by the driver for evidence files.
L2_REAL = ["roaring.Bitmap (file-backed B-tree containers, op log)", "fragment (all write/read paths, snapshot, mmap, row cache, rank/LRU cache)", "snapshot queue workers (real goroutines, scheduled by the simulator)", "real files on tmpfs through intercepted os/syswrap calls"]
L2_STUB = ["view/field/holder above the fragment (harness constructs the fragment directly)", "stats, logger, tracing (no-op implementations shipped with pilosa)"]
COMMON_ASSUME = [
    "verifinst rewrites (sync, go, fs, map-range, channel yields) preserve the semantics of the instrumented source",
    "interleavings finer than instrumented yield points (lock/unlock, channel op, fs op, goroutine start, rpc) are not explored",
    "Go 1.26.8 runtime and testing/synctest fake clock behave as documented",
]

def P(level, rule, real, stub, budget=(40, 900), extra_assume=(), tags=""):
    return {"level": level, "rule": rule, "real": real, "stub": stub, "budget": {"quick": budget[0], "thorough": budget[1]},
            "assumptions": COMMON_ASSUME + list(extra_assume), "tags": tags}

PROPS = {
    "C07": P("exploration",
             "Each evaluation is one seeded plan: a fragment kind (set/mutex/bool/int), tuning knobs (cache type/size, MaxOpN, snapshot queue workers/depth, shard), 5-75 operations over every write path and read path with forced snapshots, reopen and cache flushes, and a PCT or random schedule for the background snapshot workers; after every operation the return value and the generated reads are compared with a map model.",
             L2_REAL, L2_STUB),
    "C29": P("exploration",
             "Each evaluation is one seeded plan: 2-4 client tasks with 2-7 operations each (bit writes, imports, row store/clear, roaring imports, reads, snapshot, cache flush/recalculate, checksum and TopN requests) on one shared fragment plus background snapshot workers, executed under a PCT schedule with 1-6 change points or a random walk, at lock/cond/channel/file-operation granularity; invoke/return events are stamped with the simulator's global event counter and the history (plus a final full-state read) is checked for linearizability against a sequential bit-set model with porcupine; deadlock = clients stuck at quiescence; panic = recovered in the client task or child death.",
             L2_REAL, L2_STUB, extra_assume=["the data-race clause of C29 is not decided by the controlled stage: single-runner scheduling serialises all accesses"]),
    "C09": P("fault_enumeration",
             "Each evaluation is one seeded write history (2-25 ops over every fragment write path, forced snapshots, reopen, optional background snapshot workers) executed once while a crash image of the data directory is captured at EVERY intercepted file-system operation boundary (create, open-with-create/truncate, write, rename, remove, truncate; each write(2) of the op log, snapshot file and cache file is a boundary); every image is then opened by a fresh fragment, with and without leftover .snapshotting files, and its logical state must equal the model before or after the operation in flight.",
             L2_REAL, L2_STUB),
    "C10": P("exploration",
             "Each evaluation is one seeded plan of fragment writes through every path interleaved with checksum requests (which populate the per-block cache the next write must invalidate), snapshots and reopen; oracle: Blocks() equals Blocks() recomputed after InvalidateChecksums(), lists exactly the model's non-empty blocks, equals the checksum list of a twin fragment built from the model contents through another path, and differs in exactly one block after one bit of the twin is flipped.",
             L2_REAL, L2_STUB),
    "C12": P("exploration",
             "Each evaluation is one seeded plan of writes on a set fragment with ranked/LRU caches of size 1, 3 or 50000, clock advances inside/past the 10 s rank-cache damping window, snapshots and reopen (cache reload), interleaved with top() calls with and without ids, filter row and threshold; oracle: every reported count for requested ids equals the model row count (within the filter); TopN(n) after RecalculateCache, when every row ever written fits in the cache, equals the n largest model counts in non-increasing order.",
             L2_REAL, L2_STUB),
    "C13": P("exploration",
             "Each evaluation is one seeded plan of Set/Clear/Import on a mutex or bool fragment over 2-3 columns so that batches repeat a column with conflicting rows and hit columns that already hold a value, with snapshots and reopen; oracle after each step: every column holds at most one row and it is the row of the model's last write.",
             L2_REAL, L2_STUB),
}

# Manifest texts for claimed properties.
MAN = {
    "C07": {"text": "Seeded exploration of write/read histories on a real fragment with forced and background snapshots under controlled schedules; every read and change flag is compared with a map model after every step.",
            "note": "Samples histories (<=75 ops, <=5 rows, <=8 columns concentrated on container and shard edges); trusts the instrumentation overlay and the model in harness/internal/zz_verif_l2_test.go."},
    "C29": {"text": "Seeded search over lock-granularity interleavings of concurrent fragment operations; recorded histories checked for linearizability (porcupine), deadlock and panic.",
            "note": "Histories are short (<=28 ops, 2 rows x 2-3 columns); porcupine timeouts are counted as inconclusive, never reported; data races in the Go memory-model sense are outside what a single-runner simulation can observe (see DESIGN.md C29)."},
    "C09": {"text": "Per generated history, exhaustive enumeration of crash points at file-system-operation granularity (process-kill model), each recovered by real reopen code and compared with the model; seeded exploration over histories.",
            "note": "Process-kill model as stated by C09 (completed syscalls persist; no page-cache loss or reordering). bolt-backed attribute stores are outside C09's statement. A write(2) is atomic in the model (boundaries only, no torn single write)."},
    "C10": {"text": "Seeded exploration of write histories interleaved with checksum requests; cached checksums compared with recomputed ones, with the model's block list and with a twin fragment.",
            "note": "Hash collisions ignored; no re-implementation of the block hash (the implementation's own hasher is the reference for equal/different); samples histories of <=35 ops."},
    "C12": {"text": "Seeded exploration of write histories and cache configurations with simulated-clock control of the rank-cache damping window; reported counts compared with model row counts.",
            "note": "Fragment-level top() only in this check (PQL TopN two-pass merge is exercised by the cluster checks); TopN(n) judged only when all rows ever written fit in the cache, as the property states."},
    "C13": {"text": "Seeded exploration of mutex/bool write histories with conflicting batches; invariant (<=1 row per column, equal to last write) checked after every step.",
            "note": "Fragment-level (Set/Clear/Import paths below the field); field/executor level covered by the node-level checks."},
}

_PENDING = "not yet implemented in this revision of /verif (planned in DESIGN.md section 6); not claimed"
NA = {("C%02d" % i): _PENDING for i in range(1, 32)}
NA["C01"] = "pure functions of their arguments: no schedule, clock, I/O, fault or multi-party behaviour for a simulator to control (DESIGN.md section 6, C01)"
NA["C31"] = "configuration precedence is a pure function of flags, environment and file; nothing for a deterministic simulator to schedule or fault (DESIGN.md section 6, C31)"
