# Static per-property descriptions used by the driver for evidence files.
L2_REAL = ["roaring.Bitmap (file-backed B-tree containers, op log)", "fragment (all write/read paths, snapshot, mmap, row cache, rank/LRU cache)", "snapshot queue workers (real goroutines, scheduled by the simulator)", "real files on tmpfs through intercepted os/syswrap calls"]
L2_STUB = ["view/field/holder above the fragment (harness constructs the fragment directly)", "stats, logger, tracing (no-op implementations shipped with pilosa)"]
COMMON_ASSUME = [
    "verifinst rewrites (sync, go, fs, map-range, channel yields) preserve the semantics of the instrumented source",
    "interleavings finer than instrumented yield points (lock/unlock, channel op, fs op, goroutine start, rpc) are not explored",
    "Go 1.26.8 runtime and testing/synctest fake clock behave as documented",
]

def P(level, rule, real, stub, budget=(40, 900), extra_assume=(), tags=""):
    return {"level": level, "rule": rule, "real": real, "stub": stub, "budget": {"quick": budget[0], "thorough": budget[1]},
            "assumptions": COMMON_ASSUME + list(extra_assume), "tags": tags}

PROPS = {
    "C07": P("exploration",
             "Each evaluation is one seeded plan: a fragment kind (set/mutex/bool/int), tuning knobs (cache type/size, MaxOpN, snapshot queue workers/depth, shard), 5-75 operations over every write path and read path with forced snapshots, reopen and cache flushes, and a PCT or random schedule for the background snapshot workers; after every operation the return value and the generated reads are compared with a map model.",
             L2_REAL, L2_STUB),
}

# Manifest texts for claimed properties.
MAN = {
    "C07": {"text": "Seeded exploration of write/read histories on a real fragment with forced and background snapshots under controlled schedules; every read and change flag is compared with a map model after every step.",
            "note": "Samples histories (<=75 ops, <=5 rows, <=8 columns concentrated on container and shard edges); trusts the instrumentation overlay and the model in harness/internal/zz_verif_l2_test.go."},
}

_PENDING = "not yet implemented in this revision of /verif (planned in DESIGN.md section 6); not claimed"
NA = {("C%02d" % i): _PENDING for i in range(1, 32)}
NA["C01"] = "pure functions of their arguments: no schedule, clock, I/O, fault or multi-party behaviour for a simulator to control (DESIGN.md section 6, C01)"
NA["C31"] = "configuration precedence is a pure function of flags, environment and file; nothing for a deterministic simulator to schedule or fault (DESIGN.md section 6, C31)"
