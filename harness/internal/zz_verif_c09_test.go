package pilosa

// C09 (shard level): a crash image is captured at EVERY file-system operation
// boundary of a generated write history; each image must reopen and hold the
// state before or after the operation in flight (none-or-all per shard).

import (
	"fmt"
	"io"
	"os"
	"path/filepath"
	"sort"
	"strings"

	"verif/simrt"
)

func init() {
	simrt.Register(&simrt.Prop{ID: "C09", Gen: genC09, Exec: execC09})
}

func genC09(r *simrt.Rand, tier string) *simrt.Plan {
	if r.Bool(0.2) {
		return genC09Keys(r)
	}
	if m := simrt.Mode("C09", 3); m != nil && r.Bool(0.12) {
		return m.Gen(r, tier) // two clients: bulk value imports and single writes on one int fragment
	}
	if m := simrt.Mode("C09", 2); m != nil && r.Bool(0.3) {
		return m.Gen(r, tier) // whole-node crash images (harness in the external test package)
	}
	kind := simrt.Pick(r, l2Set, l2Set, l2Mutex, l2Bool, l2Int, l2Int)
	g := newL2Gen(r, kind)
	g.enabled = map[string]bool{"__uniquecols": true}
	for _, k := range []string{"set", "clear", "setrow", "clearrow", "import", "iroaring", "setval", "clearval", "importval"} {
		if r.Bool(0.7) {
			g.enabled[k] = true
		}
	}
	if r.Bool(0.5) {
		// runs without the write paths that are already known to be non-atomic /
		// non-durable, so that the remaining paths are explored without being masked
		g.enabled["setrow"], g.enabled["clearrow"] = false, false
	}
	p := &simrt.Plan{Knobs: l2Knobs(r, kind, g), Sched: l2Sched(r)}
	n := 2 + r.Intn(14)
	if tier == "thorough" {
		n = 2 + r.Intn(24)
	}
	var ops []simrt.Op
	for i := 0; i < n; i++ {
		switch x := r.Intn(10); {
		case x < 8:
			ops = append(ops, g.writeOp())
		default:
			ops = append(ops, simrt.Op{K: simrt.Pick(r, "snapshot", "reopen", "flush", "await")})
		}
	}
	p.Clients = [][]simrt.Op{ops}
	return p
}

func copyTree(src, dst string) error {
	return filepath.Walk(src, func(p string, fi os.FileInfo, err error) error {
		if err != nil {
			return err
		}
		rel, _ := filepath.Rel(src, p)
		t := filepath.Join(dst, rel)
		if fi.IsDir() {
			return os.MkdirAll(t, 0777)
		}
		in, err := os.Open(p)
		if err != nil {
			return err
		}
		defer in.Close()
		out, err := os.Create(t)
		if err != nil {
			return err
		}
		defer out.Close()
		_, err = io.Copy(out, in)
		return err
	})
}

type c09Boundary struct {
	n        int
	op       int // index of the client op in flight (or about to start)
	inflight bool
	what     string
}

func (h *l2) snapshotModel() string {
	if h.kind == l2Int {
		cols := make([]uint64, 0, len(h.vals))
		for c := range h.vals {
			cols = append(cols, c)
		}
		sort.Slice(cols, func(i, j int) bool { return cols[i] < cols[j] })
		var sb strings.Builder
		for _, c := range cols {
			fmt.Fprintf(&sb, "%d=%d ", c, h.vals[c])
		}
		return sb.String()
	}
	var ks [][2]uint64
	for r, m := range h.bits {
		for c := range m {
			ks = append(ks, [2]uint64{r, c})
		}
	}
	sort.Slice(ks, func(i, j int) bool {
		if ks[i][0] != ks[j][0] {
			return ks[i][0] < ks[j][0]
		}
		return ks[i][1] < ks[j][1]
	})
	var sb strings.Builder
	for _, k := range ks {
		fmt.Fprintf(&sb, "%d:%d ", k[0], k[1])
	}
	return sb.String()
}

// readState reads a fragment's logical state in the same canonical form.
func (h *l2) readState(f *fragment, cols map[uint64]bool) (string, error) {
	if h.kind == l2Int {
		ex := f.row(bsiExistsBit).Columns()
		var sb strings.Builder
		for _, c := range ex {
			v, ok, err := f.value(c, h.depth)
			if err != nil {
				return "", err
			}
			if !ok {
				return "", fmt.Errorf("column %d in not-null row but value() says absent", c)
			}
			fmt.Fprintf(&sb, "%d=%d ", c, v)
		}
		return sb.String(), nil
	}
	var sb strings.Builder
	err := f.forEachBit(func(r, c uint64) error { fmt.Fprintf(&sb, "%d:%d ", r, c); return nil })
	return sb.String(), err
}

func execC09(c *simrt.Ctx) {
	if c.Plan.Knob("mode", 0) == 1 {
		execC09Keys(c)
		return
	}
	var h *l2
	var bounds []c09Boundary
	var states []string // states[k] = model before client op k; states[len(ops)] = final
	curOp, inOp := 0, false
	imgRoot := c.Dir + "/img"
	ops := c.Plan.Clients[0]
	nfs := 0
	hook := func(op, path string) error {
		if !strings.HasPrefix(path, c.Dir+"/frag") {
			return nil
		}
		nfs++
		if nfs > 600 {
			return nil
		}
		dst := fmt.Sprintf("%s/%d", imgRoot, nfs)
		if err := copyTree(c.Dir+"/frag", dst); err != nil {
			panic(err)
		}
		bounds = append(bounds, c09Boundary{n: nfs, op: curOp, inflight: inOp, what: op + " " + filepath.Base(path)})
		return nil
	}
	ok := c.Do("setup", func() {
		h = newL2(c)
		c.State = h
		c.S.FSHook = hook
		if err := h.open(); err != nil {
			c.Fail("open-error", "%v", err)
		}
	})
	if !ok || c.Failed() {
		return
	}
	c.Do("c0", func() {
		for i, op := range ops {
			if c.Failed() {
				return
			}
			states = append(states, h.snapshotModel())
			curOp, inOp = i, true
			h.apply(op)
			inOp = false
			curOp = i + 1
			c.OpDone()
		}
		states = append(states, h.snapshotModel())
	})
	if c.Failed() {
		return
	}
	c.Do("teardown", func() { h.close() })
	c.S.FSHook = nil
	c.Do("shutdown", func() { h.shutdown() })
	if c.Failed() {
		return
	}
	// Recover every image.
	var pendingTorn *simrt.Violation
	seenFile := false
	c.Do("recover", func() {
		for _, b := range bounds {
			if c.Failed() {
				return
			}
			for variant := 0; variant < 2; variant++ {
				dir := fmt.Sprintf("%s/%d", imgRoot, b.n)
				if variant == 1 {
					// same image without leftovers of interrupted snapshots
					ents, _ := os.ReadDir(dir)
					removed := false
					for _, e := range ents {
						if strings.HasSuffix(e.Name(), snapshotExt) || strings.HasSuffix(e.Name(), ".copying") || strings.HasSuffix(e.Name(), ".temp") {
							os.Remove(filepath.Join(dir, e.Name()))
							removed = true
						}
					}
					if !removed {
						continue
					}
					c.Probe("image-with-leftover-snapshot-file")
				}
				path := fmt.Sprintf("%s/%d", dir, h.shard)
				if _, err := os.Stat(path); err != nil {
					if !seenFile {
						continue // crash before the fragment file existed
					}
					// the data file existed at an earlier boundary and is gone now: a restarted
					// view lists the directory, finds no fragment and starts empty
					if empty := ""; states[b.op] != empty && !(b.inflight && b.op+1 < len(states) && states[b.op+1] == empty) {
						c.Fail("lost-acked", "image at fs-op #%d (%s, during op %d %s%v inflight=%v): the fragment's data file is missing although it existed before; a restart finds no fragment\n before: %s", b.n, b.what, b.op, opK(ops, b.op), opI(ops, b.op), b.inflight, states[b.op])
						return
					}
					continue
				}
				seenFile = true
				f := h.newFrag(path)
				f.snapshotQueue = nil
				if err := f.Open(); err != nil {
					c.Fail("restart-blocked", "image at fs-op #%d (%s, during op %d %s%v inflight=%v): open failed: %v", b.n, b.what, b.op, opK(ops, b.op), opI(ops, b.op), b.inflight, err)
					return
				}
				got, err := h.readState(f, nil)
				f.Close()
				if err != nil {
					c.Fail("recovered-unreadable", "image at fs-op #%d (%s): %v", b.n, b.what, err)
					return
				}
				before := states[b.op]
				after := before
				if b.inflight && b.op+1 < len(states) {
					after = states[b.op+1]
				}
				c.Probe("images-checked")
				if got != before && got != after {
					cls := "lost-acked"
					if b.inflight {
						kindName := [...]string{"set", "mutex", "bool", "int"}[h.kind]
						if partialBetween(got, before, after, h.kind == l2Int) {
							// part of the in-flight write, nothing else: keep looking at
							// the other images and report this only if nothing else fails
							if pendingTorn == nil {
								pendingTorn = &simrt.Violation{Class: "torn-" + opK(ops, b.op) + "@" + kindName,
									Msg: fmt.Sprintf("image at fs-op #%d (%s), op %d %s%v in flight:\n recovered: %s\n before:    %s\n after:     %s", b.n, b.what, b.op, opK(ops, b.op), opI(ops, b.op), got, before, after)}
							}
							c.Probe("torn-images")
							continue
						}
						cls = "wrong-" + opK(ops, b.op) + "@" + kindName
					}
					c.Fail(cls, "image at fs-op #%d (%s), op %d %s%v inflight=%v variant=%d:\n recovered: %s\n before:    %s\n after:     %s", b.n, b.what, b.op, opK(ops, b.op), opI(ops, b.op), b.inflight, variant, got, before, after)
					return
				}
			}
		}
	})
	c.ProbeN("fs-boundaries", len(bounds))
	if pendingTorn != nil && !c.Failed() {
		c.Fail(pendingTorn.Class, "%s", pendingTorn.Msg)
	}
}

// partialBetween reports whether the recovered state is a partial application
// of the in-flight write and nothing else: for bit states every recovered bit
// is in before or after and every bit in both is recovered; for integer states
// every column whose value is the same before and after is recovered unchanged.
func partialBetween(got, before, after string, isInt bool) bool {
	if isInt {
		parse := func(s string) map[string]string {
			m := map[string]string{}
			for _, f := range strings.Fields(s) {
				kv := strings.SplitN(f, "=", 2)
				m[kv[0]] = kv[1]
			}
			return m
		}
		g, b, a := parse(got), parse(before), parse(after)
		cols := map[string]bool{}
		for k := range g {
			cols[k] = true
		}
		for k := range b {
			cols[k] = true
		}
		for k := range a {
			cols[k] = true
		}
		for k := range cols {
			bv, bok := b[k]
			av, aok := a[k]
			if bok == aok && bv == av {
				gv, gok := g[k]
				if gok != bok || gv != bv {
					return false
				}
			}
		}
		return true
	}
	set := func(s string) map[string]bool {
		m := map[string]bool{}
		for _, f := range strings.Fields(s) {
			m[f] = true
		}
		return m
	}
	g, b, a := set(got), set(before), set(after)
	for k := range g {
		if !b[k] && !a[k] {
			return false
		}
	}
	for k := range b {
		if a[k] && !g[k] {
			return false
		}
	}
	return true
}

func opK(ops []simrt.Op, i int) string {
	if i < len(ops) {
		return ops[i].K
	}
	return "end"
}

func opI(ops []simrt.Op, i int) []int64 {
	if i < len(ops) {
		return ops[i].I
	}
	return nil
}


// ---- key-translation store ------------------------------------------------------

// keys of many lengths, so that single entries and batches cross the sizes a buffered
// writer might use (4 KiB, 64 KiB, 256 KiB)
var c09Keys = []string{"a", "b", "c", "ünï", "", strings.Repeat("L", 5000), strings.Repeat("m", 4085), strings.Repeat("n", 4096), "k7", "k8", "k9",
	strings.Repeat("p", 40000), strings.Repeat("q", 70000), strings.Repeat("r", 300000), strings.Repeat("s", 30000)}

func genC09Keys(r *simrt.Rand) *simrt.Plan {
	p := &simrt.Plan{Knobs: map[string]int64{"mode": 1}, Sched: simrt.Config{Seed: int64(r.Uint64() >> 1)}}
	var ops []simrt.Op
	n := 1 + r.Intn(8)
	for i := 0; i < n; i++ {
		k := 1 + r.Intn(4)
		I := []int64{int64(r.Intn(2))} // 0 = column keys, 1 = row keys
		for j := 0; j < k; j++ {
			I = append(I, int64(r.Intn(len(c09Keys))))
		}
		ops = append(ops, simrt.Op{K: "tr", I: I})
		if r.Bool(0.15) {
			ops = append(ops, simrt.Op{K: "reopen"})
		}
	}
	p.Clients = [][]simrt.Op{ops}
	return p
}

func execC09Keys(c *simrt.Ctx) {
	dir := c.Dir + "/keys"
	path := dir + "/.keys"
	imgRoot := c.Dir + "/img"
	ops := c.Plan.Clients[0]
	type mapping map[string]uint64 // "ns|key" -> id
	acked := mapping{}
	var bounds []c09Boundary
	var ackedAt []mapping
	curOp, inOp := 0, false
	nfs := 0
	clone := func(m mapping) mapping {
		o := mapping{}
		for k, v := range m {
			o[k] = v
		}
		return o
	}
	hook := func(op, p string) error {
		if !strings.HasPrefix(p, dir) {
			return nil
		}
		nfs++
		if nfs > 400 {
			return nil
		}
		if _, err := os.Stat(dir); err == nil {
			if err := copyTree(dir, fmt.Sprintf("%s/%d", imgRoot, nfs)); err != nil {
				panic(err)
			}
		}
		bounds = append(bounds, c09Boundary{n: nfs, op: curOp, inflight: inOp, what: op})
		ackedAt = append(ackedAt, clone(acked))
		return nil
	}
	var tf *TranslateFile
	open := func(p string) (*TranslateFile, error) {
		t := NewTranslateFile(OptTranslateFileMapSize(1 << 22))
		t.Path = p
		return t, t.Open()
	}
	tr := func(t *TranslateFile, ns int64, keys []string) ([]uint64, error) {
		if ns == 0 {
			return t.TranslateColumnsToUint64("i", keys)
		}
		return t.TranslateRowsToUint64("i", "f", keys)
	}
	c.Do("c0", func() {
		c.S.FSHook = hook
		var err error
		if tf, err = open(path); err != nil {
			c.Fail("open-error", "%v", err)
			return
		}
		for i, op := range ops {
			curOp, inOp = i, true
			switch op.K {
			case "tr":
				var keys []string
				for _, k := range op.I[1:] {
					keys = append(keys, c09Keys[k])
				}
				ids, err := tr(tf, op.I[0], keys)
				if err != nil {
					c.Fail("translate-error", "%v", err)
					return
				}
				for j, k := range keys {
					acked[fmt.Sprintf("%d|%s", op.I[0], k)] = ids[j]
				}
			case "reopen":
				tf.Close()
				if tf, err = open(path); err != nil {
					c.Fail("reopen-error", "%v", err)
					return
				}
			}
			inOp = false
			curOp = i + 1
			c.OpDone()
		}
		tf.Close()
		c.S.FSHook = nil
	})
	if c.Failed() {
		return
	}
	c.Do("recover", func() {
		for bi, b := range bounds {
			ipath := fmt.Sprintf("%s/%d/.keys", imgRoot, b.n)
			if _, err := os.Stat(ipath); err != nil {
				continue
			}
			t, err := open(ipath)
			if err != nil {
				c.Fail("restart-blocked", "key store image at fs-op #%d (%s, op %d %s%v inflight=%v) does not open: %v", b.n, b.what, b.op, opK(ops, b.op), opI(ops, b.op), b.inflight, err)
				return
			}
			for nk, id := range ackedAt[bi] {
				parts := strings.SplitN(nk, "|", 2)
				var nsi int64
				if parts[0] == "1" {
					nsi = 1
				}
				var got string
				if nsi == 0 {
					got, err = t.TranslateColumnToString("i", id)
				} else {
					got, err = t.TranslateRowToString("i", "f", id)
				}
				if err != nil || got != parts[1] {
					t.Close()
					c.Fail("lost-acked-key", "key store image at fs-op #%d (%s, op %d): id %d reads %q (%v), acknowledged key was %q (%d bytes)", b.n, b.what, b.op, id, shortKey(got), err, shortKey(parts[1]), len(parts[1]))
					return
				}
				ids, err := tr(t, nsi, []string{parts[1]})
				if err != nil || ids[0] != id {
					t.Close()
					c.Fail("lost-acked-key", "key store image at fs-op #%d (%s, op %d): key %q translates to %v (%v), acknowledged id was %d", b.n, b.what, b.op, shortKey(parts[1]), ids, err, id)
					return
				}
			}
			t.Close()
			c.Probe("key-images-checked")
		}
	})
	c.ProbeN("fs-boundaries", len(bounds))
}

func shortKey(k string) string {
	if len(k) > 20 {
		return fmt.Sprintf("%s...(%d)", k[:10], len(k))
	}
	return k
}
