package pilosa

// C10 (block checksums), C12 (TopN counts), C13 (mutex/bool single value) on the L2 harness.

import (
	"bytes"
	"fmt"
	"sort"

	"verif/simrt"
)

func init() {
	simrt.Register(&simrt.Prop{ID: "C10", Gen: genC10, Exec: execC10})
	simrt.Register(&simrt.Prop{ID: "C12", Gen: genC12, Exec: execC12})
	simrt.Register(&simrt.Prop{ID: "C13", Gen: genC13, Exec: execL2Seq})
}

// ---- C10 ---------------------------------------------------------------------

func blocksString(bs []FragmentBlock) string {
	s := ""
	for _, b := range bs {
		s += fmt.Sprintf("%d:%x ", b.ID, b.Checksum)
	}
	return s
}

func eqBlocks(a, b []FragmentBlock) bool {
	if len(a) != len(b) {
		return false
	}
	for i := range a {
		if a[i].ID != b[i].ID || !bytes.Equal(a[i].Checksum, b[i].Checksum) {
			return false
		}
	}
	return true
}

// checkBlocks: the (possibly cached) checksum list must equal a list computed
// from scratch, and list exactly the blocks that hold bits in the model.
func (h *l2) checkBlocks() {
	f := h.f
	got := f.Blocks()
	f.InvalidateChecksums()
	fresh := f.Blocks()
	if !eqBlocks(got, fresh) {
		h.fail("stale-checksum", "Blocks()=%s but recomputed=%s", blocksString(got), blocksString(fresh))
		return
	}
	want := map[int]bool{}
	if h.kind == l2Int {
		return
	}
	for r, m := range h.bits {
		if len(m) > 0 {
			want[int(r/HashBlockSize)] = true
		}
	}
	var ids []int
	for id := range want {
		ids = append(ids, id)
	}
	sort.Ints(ids)
	var gids []int
	for _, b := range fresh {
		gids = append(gids, b.ID)
	}
	if fmt.Sprint(ids) != fmt.Sprint(gids) && !(len(ids) == 0 && len(gids) == 0) {
		h.fail("block-list", "Blocks() ids=%v want %v", gids, ids)
	}
}

// twinCheck builds a second fragment holding exactly the model's bits through a
// single path and compares checksum lists; then flips one bit and requires that
// exactly that block's checksum differs.
func (h *l2) twinCheck(flipRow, flipCol int64) {
	if h.kind == l2Int {
		return
	}
	tw := h.newFrag(h.path + ".twin")
	tw.snapshotQueue = nil
	tw.mutexVector = nil
	if err := tw.Open(); err != nil {
		h.c.Fail("twin-open", "%v", err)
		return
	}
	defer tw.Close()
	var rows, cols []uint64
	for r, m := range h.bits {
		for c := range m {
			rows = append(rows, r)
			cols = append(cols, c)
		}
	}
	if len(rows) > 0 {
		if err := tw.bulkImport(rows, cols, &ImportOptions{}); err != nil {
			h.c.Fail("twin-import", "%v", err)
			return
		}
	}
	a, b := h.f.Blocks(), tw.Blocks()
	if !eqBlocks(a, b) {
		h.fail("twin-differs", "equal contents but checksums differ: %s vs twin %s", blocksString(a), blocksString(b))
		return
	}
	h.c.Probe("twin-equal-checked")
	// flip one bit in the twin
	r, col := uint64(flipRow), h.col(flipCol)
	if h.bits[r][col] {
		tw.clearBit(r, col)
	} else {
		tw.setBit(r, col)
	}
	blk := int(r / HashBlockSize)
	b2 := tw.Blocks()
	am, bm := map[int][]byte{}, map[int][]byte{}
	for _, x := range a {
		am[x.ID] = x.Checksum
	}
	for _, x := range b2 {
		bm[x.ID] = x.Checksum
	}
	for id := range am {
		if id != blk && !bytes.Equal(am[id], bm[id]) {
			h.fail("twin-flip", "flipping (%d,%d) changed checksum of block %d", r, col, id)
			return
		}
	}
	if bytes.Equal(am[blk], bm[blk]) {
		h.fail("twin-flip", "flipping (%d,%d) left checksum of block %d unchanged (%x)", r, col, blk, am[blk])
	}
	h.c.Probe("twin-flip-checked")
}

func genC10(r *simrt.Rand, tier string) *simrt.Plan {
	kind := simrt.Pick(r, l2Set, l2Set, l2Set, l2Mutex, l2Bool, l2Int)
	g := newL2Gen(r, kind)
	g.enabled = map[string]bool{"__uniquecols": true}
	for _, k := range []string{"set", "clear", "setrow", "clearrow", "import", "iroaring", "setval", "clearval", "importval"} {
		if r.Bool(0.75) {
			g.enabled[k] = true
		}
	}
	p := &simrt.Plan{Knobs: l2Knobs(r, kind, g), Sched: l2Sched(r)}
	n := 4 + r.Intn(30)
	var ops []simrt.Op
	for i := 0; i < n; i++ {
		switch x := r.Intn(10); {
		case x < 5:
			ops = append(ops, g.writeOp())
		case x < 9:
			ops = append(ops, simrt.Op{K: "rblocks"})
		default:
			ops = append(ops, g.storageOp())
		}
	}
	ops = append(ops, simrt.Op{K: "rblocks"}, simrt.Op{K: "twin", I: []int64{g.row(), g.col()}})
	p.Clients = [][]simrt.Op{ops}
	if r.Bool(0.4) {
		// a second client asks for the checksums while the first one writes (anti-entropy
		// requests arrive whenever they arrive)
		var c1 []simrt.Op
		for i := 0; i < 3+r.Intn(10); i++ {
			c1 = append(c1, simrt.Op{K: "rblocksconc", I: []int64{int64(r.Intn(6))}})
		}
		p.Clients = append(p.Clients, c1)
		// the reader holds the fragment: it is not closed and reopened under it (the view keeps
		// a fragment open for as long as requests can reach it)
		for i := range ops {
			if ops[i].K == "reopen" {
				ops[i].K = "snapshot"
			}
		}
	}
	return p
}

// execC10: client 0 as in execL2Seq; further clients run concurrently and only read.
func execC10(c *simrt.Ctx) {
	if len(c.Plan.Clients) < 2 {
		execL2Seq(c)
		return
	}
	var h *l2
	ok := c.Do("setup", func() {
		h = newL2(c)
		c.State = h
		if err := h.open(); err != nil {
			c.Fail("open-error", "%v", err)
		}
	})
	if ok && !c.Failed() {
		for ci := range c.Plan.Clients {
			ci := ci
			c.Go(fmt.Sprintf("c%d", ci), func() {
				for _, op := range c.Plan.Clients[ci] {
					if c.Failed() || c.Stopped() {
						return
					}
					if ci == 0 {
						c10Gen++
						h.apply(op)
						c10Gen++
					} else {
						for i := int64(0); i < op.I[0]; i++ {
							simrt.Yield("reader-pause")
						}
						h.concBlocks()
					}
					c.OpDone()
				}
			})
		}
		c.RunTasks()
	}
	if !c.Failed() {
		c.Do("teardown", func() { h.close() })
	}
	c.Do("shutdown", func() { h.shutdown() })
}

var c10ConcN int

// c10Gen is advanced by the writing client before and after each of its operations.
var c10Gen int

func (h *l2) allBits() [][2]uint64 {
	var out [][2]uint64
	_ = h.f.forEachBit(func(r, c uint64) error { out = append(out, [2]uint64{r, c}); return nil })
	return out
}

// concBlocks is a reader racing with writes: checksums, contents, checksums, contents. When
// both checksum lists and both content lists agree, no write took effect in between (a write
// changes contents and invalidates the touched blocks in one critical section), so the list
// must be the checksums of those contents - judged against a twin fragment built from them.
func (h *l2) concBlocks() {
	f := h.f
	g0 := c10Gen
	c1 := f.Blocks()
	d1 := h.allBits()
	c2 := f.Blocks()
	d2 := h.allBits()
	// ... and no operation of the writer began or ended meanwhile: several operations can
	// change contents and put them back between the four reads (clear, set, clear); a single
	// operation in flight cannot
	if c10Gen != g0 || !eqBlocks(c1, c2) || fmt.Sprint(d1) != fmt.Sprint(d2) {
		h.c.Probe("conc-blocks-raced")
		return
	}
	c10ConcN++
	tw := h.newFrag(fmt.Sprintf("%s.conc%d", h.path, c10ConcN))
	tw.snapshotQueue = nil
	tw.mutexVector = nil
	if err := tw.Open(); err != nil {
		h.c.Fail("twin-open", "%v", err)
		return
	}
	defer tw.Close()
	if len(d1) > 0 {
		rows, cols := make([]uint64, len(d1)), make([]uint64, len(d1))
		for i, b := range d1 {
			rows[i], cols[i] = b[0], b[1]
		}
		if err := tw.bulkImport(rows, cols, &ImportOptions{}); err != nil {
			h.c.Fail("twin-import", "%v", err)
			return
		}
	}
	if want := tw.Blocks(); !eqBlocks(c1, want) {
		h.c.Fail("stale-checksum", "a reader during %s saw Blocks()=%s twice around contents whose checksums are %s (%d bits: %v)", h.lastWrite, blocksString(c1), blocksString(want), len(d1), d1)
		return
	}
	h.c.Probe("conc-blocks-checked")
}

// ---- C12 ---------------------------------------------------------------------

func (h *l2) countIn(r uint64, src map[uint64]bool) uint64 {
	n := uint64(0)
	for c := range h.bits[r] {
		if src == nil || src[c] {
			n++
		}
	}
	return n
}

// rtop: I = [n, minThreshold, srcRow(-1 none), ids...]
func (h *l2) checkTop(I []int64) {
	f := h.f
	opt := topOptions{N: int(I[0]), MinThreshold: uint64(I[1])}
	var src map[uint64]bool
	if I[2] >= 0 {
		src = h.bits[uint64(I[2])]
		if src == nil {
			src = map[uint64]bool{}
		}
		opt.Src = NewRow(sortedCols(src)...)
	}
	for _, id := range I[3:] {
		opt.RowIDs = append(opt.RowIDs, uint64(id))
	}
	if len(opt.RowIDs) == 0 {
		f.RecalculateCache()
		c12Recalculated(h)
	}
	pairs, err := f.top(opt)
	if err != nil {
		h.c.Fail("read-error", "top: %v", err)
		return
	}
	desc := fmt.Sprintf("top(n=%d,thr=%d,src=%d,ids=%v)=%v", opt.N, opt.MinThreshold, I[2], opt.RowIDs, pairs)
	if len(opt.RowIDs) > 0 {
		req := map[uint64]bool{}
		for _, id := range opt.RowIDs {
			req[id] = true
		}
		for _, p := range pairs {
			if !req[p.ID] {
				h.fail("topn-ids", "%s reports row %d that was not requested", desc, p.ID)
				return
			}
			if want := h.countIn(p.ID, src); p.Count != want {
				h.fail("topn-ids", "%s: row %d count %d, true count %d", desc, p.ID, p.Count, want)
				return
			}
		}
		h.c.Probe("topn-ids-checked")
		return
	}
	// TopN(n) without ids and without a cut-off: every row the rank cache must hold (written
	// since a recalculation found room for all non-empty rows) is reported, with its count.
	if st := c12State[h]; st != nil && f.CacheType == CacheTypeRanked && src == nil && opt.N == 0 && len(h.rowCounts()) <= int(f.CacheSize) {
		got := map[uint64]uint64{}
		for _, p := range pairs {
			got[p.ID] = p.Count
		}
		var rows []uint64
		for r := range st.guar {
			rows = append(rows, r)
		}
		sort.Slice(rows, func(i, j int) bool { return rows[i] < rows[j] })
		for _, r := range rows {
			want := h.countIn(r, nil)
			if want == 0 || want < opt.MinThreshold {
				continue
			}
			if n, ok := got[r]; !ok || n != want {
				h.fail("topn-missing", "%s: row %d (count %d) was written after a recalculation that had room for every non-empty row (cache size %d, %d non-empty rows) and is reported as %d (present=%v)", desc, r, want, f.CacheSize, len(h.rowCounts()), n, ok)
				return
			}
		}
		h.c.Probe("topn-guaranteed-rows-checked")
		if st.wasFull {
			h.c.Probe("topn-guaranteed-rows-checked-after-overfull")
		}
	}
	// TopN(n) without ids: the full answer is judged only when every row ever written fits in the cache.
	if f.CacheType == CacheTypeNone || src != nil || h.c.Plan.Knob("rowsfit", 0) == 0 {
		return
	}
	type rc struct {
		r uint64
		n uint64
	}
	var all []rc
	for r := range h.bits {
		if n := h.countIn(r, nil); n > 0 && n >= opt.MinThreshold {
			all = append(all, rc{r, n})
		}
	}
	sort.Slice(all, func(i, j int) bool { return all[i].n > all[j].n })
	wantN := len(all)
	if opt.N > 0 && opt.N < wantN {
		wantN = opt.N
	}
	if len(pairs) != wantN {
		h.fail("topn-n", "%s: %d rows, want %d (model counts %v)", desc, len(pairs), wantN, all)
		return
	}
	for i, p := range pairs {
		if i > 0 && pairs[i-1].Count < p.Count {
			h.fail("topn-n", "%s: not in non-increasing order", desc)
			return
		}
		if p.Count != all[i].n {
			h.fail("topn-n", "%s: entry %d has count %d, want %d (model counts %v)", desc, i, p.Count, all[i].n, all)
			return
		}
		if want := h.countIn(p.ID, nil); p.Count != want {
			h.fail("topn-n", "%s: row %d count %d, true count %d", desc, p.ID, p.Count, want)
			return
		}
	}
	h.c.Probe("topn-n-checked")
}

// c12Track follows which rows the rank cache must hold: after a recalculation that found
// room for every non-empty row the admission threshold is 1, so every row whose count changes
// from then on (while the rows still fit) is admitted; rows evicted or refused earlier and not
// written since are not judged.
type c12Track struct {
	wasFull bool // a recalculation has seen more non-empty rows than the cache holds
	roomy   bool
	guar    map[uint64]bool
	prev    map[uint64]uint64
}

var c12State = map[*l2]*c12Track{}

func (h *l2) rowCounts() map[uint64]uint64 {
	m := map[uint64]uint64{}
	for r := range h.bits {
		if n := h.countIn(r, nil); n > 0 {
			m[r] = n
		}
	}
	return m
}

func c12AfterWrite(h *l2, op simrt.Op) {
	st := c12State[h]
	if st == nil {
		return
	}
	counts := h.rowCounts()
	switch {
	case op.K == "restore":
		st.roomy, st.guar = false, map[uint64]bool{}
	case len(counts) > int(h.f.CacheSize):
		st.roomy, st.guar = false, map[uint64]bool{}
	case st.roomy:
		for r, n := range counts {
			if st.prev[r] != n {
				st.guar[r] = true
			}
		}
		for r := range st.guar {
			if counts[r] == 0 {
				delete(st.guar, r)
			}
		}
	}
	st.prev = counts
}

// c12Recalculated is called right after a RecalculateCache.
func c12Recalculated(h *l2) {
	st := c12State[h]
	if st == nil {
		return
	}
	if len(h.rowCounts()) <= int(h.f.CacheSize) {
		if st.wasFull && !st.roomy {
			h.c.Probe("rank-cache-roomy-again-after-overfull")
		}
		st.roomy = true
	} else {
		st.wasFull = true
	}
}

func execC12(c *simrt.Ctx) {
	var h *l2
	ok := c.Do("setup", func() {
		h = newL2(c)
		c.State = h
		h.hooks.afterWrite = c12AfterWrite
		c12State[h] = &c12Track{guar: map[uint64]bool{}, prev: map[uint64]uint64{}}
		if err := h.open(); err != nil {
			c.Fail("open-error", "%v", err)
		}
	})
	defer delete(c12State, h)
	if ok && !c.Failed() {
		c.Do("c0", func() {
			for _, op := range c.Plan.Clients[0] {
				if c.Failed() {
					return
				}
				h.apply(op)
				if op.K == "recalc" {
					c12Recalculated(h)
				}
				c.OpDone()
			}
		})
	}
	if !c.Failed() {
		c.Do("teardown", func() { h.close() })
	}
	c.Do("shutdown", func() { h.shutdown() })
}

func genC12(r *simrt.Rand, tier string) *simrt.Plan {
	kind := simrt.Pick(r, l2Set, l2Set, l2Set, l2Mutex)
	g := newL2Gen(r, kind)
	g.enabled = map[string]bool{}
	for _, k := range []string{"set", "clear", "setrow", "clearrow", "import", "iroaring"} {
		if r.Bool(0.75) {
			g.enabled[k] = true
		}
	}
	// more rows than usual, so that small caches evict / refuse rows
	for len(g.rows) < 6 {
		g.rows = append(g.rows, int64(r.Intn(12)))
	}
	p := &simrt.Plan{Knobs: l2Knobs(r, kind, g), Sched: l2Sched(r)}
	p.Knobs["cachetype"] = simrt.Pick(r, int64(0), 0, 1)
	distinct := map[int64]bool{}
	for _, x := range g.rows {
		distinct[x] = true
	}
	if int64(len(distinct)) <= p.Knobs["cachesize"] {
		p.Knobs["rowsfit"] = 1
	}
	n := 5 + r.Intn(35)
	var ops []simrt.Op
	if kind == l2Set && r.Bool(0.15) {
		// shrink scenario: more rows than a small ranked cache holds, recalculated while
		// over-full, then emptied until they fit again, recalculated, then small writes
		p.Knobs["cachetype"], p.Knobs["cachesize"] = 0, int64(simrt.Pick(r, 1, 3))
		delete(p.Knobs, "rowsfit")
		nrows := int(p.Knobs["cachesize"]) + 1 + r.Intn(2)
		for i := 0; i < nrows; i++ {
			I := []int64{0}
			for k := 0; k < 2+i+r.Intn(2); k++ {
				I = append(I, int64(i), int64(k*3+i))
			}
			ops = append(ops, simrt.Op{K: "import", I: I})
		}
		ops = append(ops, simrt.Op{K: "recalc"})
		for i := 0; i < nrows-int(p.Knobs["cachesize"]); i++ {
			ops = append(ops, simrt.Op{K: "clearrow", I: []int64{int64(r.Intn(nrows))}}, simrt.Op{K: "clearrow", I: []int64{int64(i)}})
		}
		ops = append(ops, simrt.Op{K: "recalc"})
		for i := 0; i < 1+r.Intn(3); i++ {
			ops = append(ops, simrt.Op{K: simrt.Pick(r, "set", "set", "clear"), I: []int64{int64(r.Intn(nrows)), int64(r.Intn(12))}})
		}
		ops = append(ops, simrt.Op{K: "rtop", I: []int64{0, 0, -1}})
		n = r.Intn(8)
	}
	for i := 0; i < n; i++ {
		switch x := r.Intn(10); {
		case x < 5:
			ops = append(ops, g.writeOp())
		case x < 9:
			I := []int64{int64(r.Intn(4)), int64(r.Intn(3)), -1}
			if r.Bool(0.3) {
				I[2] = g.row()
			}
			if r.Bool(0.6) {
				k := 1 + r.Intn(3)
				for j := 0; j < k; j++ {
					I = append(I, g.row())
				}
			}
			ops = append(ops, simrt.Op{K: "rtop", I: I})
		default:
			if r.Bool(0.3) {
				ops = append(ops, simrt.Op{K: "sleep", I: []int64{simrt.Pick(r, int64(1), 9, 11, 30)}})
			} else {
				ops = append(ops, g.storageOp())
			}
		}
	}
	p.Clients = [][]simrt.Op{ops}
	return p
}

// ---- C13 ---------------------------------------------------------------------

// checkMutex: every column holds at most one row, and it is the model's.
func (h *l2) checkMutex() {
	f := h.f
	held := map[uint64][]uint64{}
	if err := f.forEachBit(func(r, c uint64) error { held[c] = append(held[c], r); return nil }); err != nil {
		h.c.Fail("read-error", "forEachBit: %v", err)
		return
	}
	cols := make([]uint64, 0, len(held))
	for c := range held {
		cols = append(cols, c)
	}
	sort.Slice(cols, func(i, j int) bool { return cols[i] < cols[j] })
	for _, c := range cols {
		rows := held[c]
		if len(rows) > 1 {
			h.fail("mutex-two-rows", "column %d holds rows %v", c, rows)
			return
		}
		if h.kind == l2Bool && rows[0] > 1 {
			h.fail("bool-row", "column %d holds row %d", c, rows[0])
			return
		}
		want, ok := h.mutexHolder(c)
		if !ok || want != rows[0] {
			h.fail("mutex-last-write", "column %d holds row %d, last write was row %v (present=%v)", c, rows[0], want, ok)
			return
		}
	}
	for r, m := range h.bits {
		for c := range m {
			if len(held[c]) == 0 {
				h.fail("mutex-last-write", "column %d holds nothing, last write was row %d", c, r)
				return
			}
		}
	}
}

func genC13(r *simrt.Rand, tier string) *simrt.Plan {
	if m := simrt.Mode("C13", 2); m != nil && r.Bool(0.04) {
		// node level (a real Server with restarts; harness in the external test package);
		// one such run costs about a hundred fragment-level ones
		return m.Gen(r, tier)
	}
	kind := simrt.Pick(r, l2Mutex, l2Mutex, l2Bool)
	g := newL2Gen(r, kind)
	// few columns so that batches repeat them with conflicting rows
	g.cols = g.cols[:2+r.Intn(2)]
	g.enabled = map[string]bool{"set": true, "clear": r.Bool(0.7), "import": true}
	p := &simrt.Plan{Knobs: l2Knobs(r, kind, g), Sched: l2Sched(r)}
	n := 3 + r.Intn(25)
	var ops []simrt.Op
	for i := 0; i < n; i++ {
		switch x := r.Intn(10); {
		case x < 6:
			ops = append(ops, g.writeOp())
		case x < 9:
			ops = append(ops, simrt.Op{K: "rmutex"})
		default:
			ops = append(ops, g.storageOp())
		}
	}
	ops = append(ops, simrt.Op{K: "rmutex"}, simrt.Op{K: "rfull"})
	p.Clients = [][]simrt.Op{ops}
	return p
}
