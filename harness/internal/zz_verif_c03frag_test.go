package pilosa

// C03 at fragment level (plan knob mode=2): rows handed out by a real fragment, and
// rows derived from them with the Row set operations, are held while the fragment
// is written, snapshotted, reopened and closed, and while the held values
// themselves are written; afterwards both sides are read again.

import (
	"fmt"

	"verif/simrt"
)

func init() {
	simrt.RegisterMode("C03", 2, &simrt.Prop{ID: "C03", Gen: genC03Frag, Exec: execC03Frag})
}

type heldRow struct {
	row  uint64
	r    *Row
	want []uint64
	how  string
}

var c03Derivations = []string{"row", "union-empty", "union-other-shard", "difference-empty", "xor-other-shard", "merge-into-new", "intersect-self"}

func genC03Frag(r *simrt.Rand, tier string) *simrt.Plan {
	kind := simrt.Pick(r, l2Set, l2Set, l2Set, l2Mutex)
	g := newL2Gen(r, kind)
	g.enabled = map[string]bool{"__uniquecols": true}
	for _, k := range []string{"set", "clear", "setrow", "clearrow", "import", "iroaring"} {
		if r.Bool(0.75) {
			g.enabled[k] = true
		}
	}
	p := &simrt.Plan{Knobs: l2Knobs(r, kind, g), Sched: l2Sched(r)}
	p.Knobs["mode"] = 2
	n := 4 + r.Intn(26)
	var ops []simrt.Op
	for i := 0; i < n; i++ {
		switch x := r.Intn(14); {
		case x < 5:
			ops = append(ops, g.writeOp())
		case x < 8:
			ops = append(ops, simrt.Op{K: "hold", I: []int64{g.row(), int64(r.Intn(len(c03Derivations)))}})
		case x < 10:
			ops = append(ops, simrt.Op{K: "rheld"})
		case x < 11:
			ops = append(ops, simrt.Op{K: "mutheld", I: []int64{int64(r.Intn(6)), g.col()}})
		case x < 12:
			ops = append(ops, simrt.Op{K: "storemut", I: []int64{g.row(), g.col(), g.col(), g.col()}})
		default:
			ops = append(ops, g.storageOp())
		}
	}
	ops = append(ops, simrt.Op{K: "rheld"}, simrt.Op{K: "rfull"})
	p.Clients = [][]simrt.Op{ops}
	return p
}

func execC03Frag(c *simrt.Ctx) {
	var h *l2
	var held []*heldRow
	ok := c.Do("setup", func() {
		h = newL2(c)
		c.State = h
		if err := h.open(); err != nil {
			c.Fail("open-error", "%v", err)
		}
	})
	checkHeld := func(after string) {
		for _, x := range held {
			if got := x.r.Columns(); !eqU64(got, x.want) {
				c.Fail("derived-changed@"+x.how, "after %s: a value obtained by %s of row %d was %s when taken and is %s now", after, x.how, x.row, u64s(x.want), u64s(got))
				return
			}
		}
		c.ProbeN("held-rows-checked", len(held))
	}
	if ok && !c.Failed() {
		c.Do("c0", func() {
			for _, op := range c.Plan.Clients[0] {
				if c.Failed() {
					return
				}
				I := op.I
				switch op.K {
				case "hold":
					row := uint64(I[0])
					base := h.f.row(row)
					how := c03Derivations[int(I[1])%len(c03Derivations)]
					other := NewRow((h.shard+1)*ShardWidth + 5) // a row living in another shard
					var r *Row
					switch how {
					case "row":
						r = base
					case "union-empty":
						r = base.Union(NewRow())
					case "union-other-shard":
						r = base.Union(other)
					case "difference-empty":
						r = base.Difference(NewRow())
					case "xor-other-shard":
						r = base.Xor(other)
					case "merge-into-new":
						r = NewRow()
						r.Merge(base)
					case "intersect-self":
						r = base.Intersect(base)
					}
					held = append(held, &heldRow{row: row, r: r, want: r.Columns(), how: how})
				case "rheld":
					checkHeld(h.lastWrite)
				case "mutheld": // writing a held value must not change the fragment
					if len(held) == 0 {
						continue
					}
					x := held[int(I[0])%len(held)]
					col := h.col(I[1])
					x.r.SetBit(col)
					x.want = x.r.Columns()
					got := h.f.row(x.row).Columns()
					if want := sortedCols(h.bits[x.row]); !eqU64(got, want) {
						c.Fail("source-changed@"+x.how, "after setting column %d in a value obtained by %s of row %d: the fragment's row(%d)=%s want %s", col, x.how, x.row, x.row, u64s(got), u64s(want))
						return
					}
					checkHeld("writing a held value")
					c.Probe("held-row-written")
				case "storemut": // Store a row, then write the source row: the fragment must not change
					if h.kind != l2Set {
						continue // Store is not offered on mutex fields
					}
					dst := uint64(I[0])
					src := NewRow(h.col(I[1]), h.col(I[2]))
					if _, err := h.f.setRow(src, dst); err != nil {
						c.Fail("write-error", "setRow: %v", err)
						return
					}
					h.bits[dst] = map[uint64]bool{h.col(I[1]): true, h.col(I[2]): true}
					h.lastWrite = fmt.Sprintf("setrow(%d) from a fresh row", dst)
					src.SetBit(h.col(I[3]))
					got := h.f.row(dst).Columns()
					if want := sortedCols(h.bits[dst]); !eqU64(got, want) {
						c.Fail("source-changed@store", "after Store(row %d) and then setting column %d in the source row: the fragment's row(%d)=%s want %s", dst, h.col(I[3]), dst, u64s(got), u64s(want))
						return
					}
				default:
					h.apply(op)
				}
				c.OpDone()
			}
		})
	}
	if !c.Failed() {
		c.Do("teardown", func() { h.close() })
		// the held values must survive the fragment being closed (its file unmapped)
		if !c.Failed() {
			c.Do("after-close", func() { checkHeld("closing the fragment") })
		}
	}
	c.Do("shutdown", func() { h.shutdown() })
}
