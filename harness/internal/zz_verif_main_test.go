package pilosa

import (
	"testing"

	"verif/simrt"
)

// TestVerifSim is the single entry point of the simulation binary; the driver
// selects property, seeds and budget through VERIF_* environment variables.
func TestVerifSim(t *testing.T) { simrt.Main(t) }
