package pilosa

// L2 harness: one fragment (shard) driven through its write and read API against
// a plain map model. Shared by C07, C10, C12, C13, C03, C09 and C29.

import (
	"bytes"
	"context"
	"fmt"
	"os"
	"sort"
	"strings"
	"time"

	"github.com/pilosa/pilosa/logger"
	"github.com/pilosa/pilosa/syswrap"
	"verif/simrt"
)

const (
	l2Set = iota
	l2Mutex
	l2Bool
	l2Int
)

type l2 struct {
	c     *simrt.Ctx
	f     *fragment
	path  string
	kind  int
	shard uint64
	depth uint
	queue chan *fragment

	bits map[uint64]map[uint64]bool // row -> absolute column -> set (set/mutex/bool kinds)
	vals map[uint64]int64           // absolute column -> value (int kind)

	lastWrite string
	hooks     l2Hooks

	archive  []byte // fragment archive kept by the "archive" op
	archBits map[uint64]map[uint64]bool
	archVals map[uint64]int64
}

// l2Hooks lets properties add checks around the shared op executor.
type l2Hooks struct {
	afterWrite func(h *l2, op simrt.Op)
	afterOpen  func(h *l2)
}

func newL2(c *simrt.Ctx) *l2 {
	p := c.Plan
	h := &l2{c: c, kind: int(p.Knob("kind", 0)), shard: uint64(p.Knob("shard", 0)), depth: uint(p.Knob("depth", 8)),
		bits: map[uint64]map[uint64]bool{}, vals: map[uint64]int64{}}
	h.path = fmt.Sprintf("%s/frag/%d", c.Dir, h.shard)
	os.MkdirAll(c.Dir+"/frag", 0777)
	if p.Knob("queue", 0) > 0 {
		h.queue = newSnapshotQueue(int(p.Knob("queuedepth", 2)), int(p.Knob("queue", 1)), logger.NopLogger)
	}
	if p.Knob("fewfiles", 0) != 0 && h.queue != nil {
		// (only with a snapshot queue, as in a server: without one a snapshot runs inside the
		// write that triggered it, a combination the server never uses)
		syswrap.SetMaxFileCount(0)
	} else {
		syswrap.SetMaxFileCount(500000)
	}
	return h
}

func (h *l2) col(off int64) uint64 { return h.shard*ShardWidth + uint64(off)%ShardWidth }

func cacheTypeOf(k int64) string {
	switch k {
	case 1:
		return CacheTypeLRU
	case 2:
		return CacheTypeNone
	}
	return CacheTypeRanked
}

func (h *l2) newFrag(path string) *fragment {
	p := h.c.Plan
	flags := byte(0)
	f := newFragment(path, "i", "f", viewStandard, h.shard, flags)
	f.CacheType = cacheTypeOf(p.Knob("cachetype", 0))
	f.CacheSize = uint32(p.Knob("cachesize", 50000))
	f.MaxOpN = int(p.Knob("maxopn", 10000))
	f.snapshotQueue = h.queue
	switch h.kind {
	case l2Mutex:
		f.mutexVector = newRowsVector(f)
	case l2Bool:
		f.mutexVector = newBoolVector(f)
	case l2Int:
		f.CacheType = CacheTypeNone
	}
	return f
}

func (h *l2) open() error {
	h.f = h.newFrag(h.path)
	if err := h.f.Open(); err != nil {
		return err
	}
	if h.hooks.afterOpen != nil {
		h.hooks.afterOpen(h)
	}
	return nil
}

func (h *l2) close() {
	if h.f != nil {
		if err := h.f.Close(); err != nil {
			h.c.Fail("close-error", "%v", err)
		}
		h.f = nil
	}
}

func (h *l2) shutdown() {
	syswrap.SetMaxFileCount(500000)
	if h.queue != nil {
		close(h.queue)
	}
}

func (h *l2) rowSet(r uint64) map[uint64]bool {
	m := h.bits[r]
	if m == nil {
		m = map[uint64]bool{}
		h.bits[r] = m
	}
	return m
}

func sortedCols(m map[uint64]bool) []uint64 {
	out := make([]uint64, 0, len(m))
	for c, ok := range m {
		if ok {
			out = append(out, c)
		}
	}
	sort.Slice(out, func(i, j int) bool { return out[i] < out[j] })
	return out
}

func u64s(a []uint64) string {
	if len(a) > 24 {
		return fmt.Sprintf("%v...(%d)", a[:24], len(a))
	}
	return fmt.Sprint(a)
}

func eqU64(a, b []uint64) bool {
	if len(a) != len(b) {
		return false
	}
	for i := range a {
		if a[i] != b[i] {
			return false
		}
	}
	return true
}

// mutexHolder returns the row a column holds in the model (mutex/bool kinds).
func (h *l2) mutexHolder(col uint64) (uint64, bool) {
	for r, m := range h.bits {
		if m[col] {
			return r, true
		}
	}
	return 0, false
}

func (h *l2) modelSet(r, col uint64) bool {
	if h.kind == l2Mutex || h.kind == l2Bool {
		if er, ok := h.mutexHolder(col); ok && er != r {
			delete(h.bits[er], col)
		}
	}
	m := h.rowSet(r)
	if m[col] {
		return false
	}
	m[col] = true
	return true
}

func (h *l2) modelClear(r, col uint64) bool {
	if h.bits[r][col] {
		delete(h.bits[r], col)
		return true
	}
	return false
}

func (h *l2) fail(class, format string, a ...interface{}) {
	h.c.Fail(class, "after %s: %s", h.lastWrite, fmt.Sprintf(format, a...))
}

// apply executes one op on the fragment and the model, checking return values.
func (h *l2) apply(op simrt.Op) {
	f := h.f
	I := op.I
	isWrite := true
	switch op.K {
	case "set":
		r, col := uint64(I[0]), h.col(I[1])
		got, err := f.setBit(r, col)
		if err != nil {
			h.c.Fail("write-error", "setBit(%d,%d): %v", r, col, err)
			return
		}
		want := h.modelSet(r, col)
		h.lastWrite = fmt.Sprintf("set(%d,%d)", r, col)
		if got != want {
			h.fail("changed-flag", "setBit(%d,%d) changed=%v want %v", r, col, got, want)
		}
	case "clear":
		r, col := uint64(I[0]), h.col(I[1])
		got, err := f.clearBit(r, col)
		if err != nil {
			h.c.Fail("write-error", "clearBit: %v", err)
			return
		}
		want := h.modelClear(r, col)
		h.lastWrite = fmt.Sprintf("clear(%d,%d)", r, col)
		if got != want {
			h.fail("changed-flag", "clearBit(%d,%d) changed=%v want %v", r, col, got, want)
		}
	case "setrow":
		dst := uint64(I[0])
		var cols []uint64
		for _, o := range I[1:] {
			cols = append(cols, h.col(o))
		}
		row := NewRow(cols...)
		if _, err := f.setRow(row, dst); err != nil {
			h.c.Fail("write-error", "setRow: %v", err)
			return
		}
		m := map[uint64]bool{}
		for _, c := range cols {
			m[c] = true
		}
		h.bits[dst] = m
		h.lastWrite = fmt.Sprintf("setrow(%d,%d cols)", dst, len(cols))
	case "clearrow":
		r := uint64(I[0])
		got, err := f.clearRow(r)
		if err != nil {
			h.c.Fail("write-error", "clearRow: %v", err)
			return
		}
		want := len(h.bits[r]) > 0
		delete(h.bits, r)
		h.lastWrite = fmt.Sprintf("clearrow(%d)", r)
		if got != want {
			h.fail("changed-flag", "clearRow(%d) changed=%v want %v", r, got, want)
		}
	case "import":
		clear := I[0] != 0
		var rows, cols []uint64
		for i := 1; i+1 < len(I); i += 2 {
			rows = append(rows, uint64(I[i]))
			cols = append(cols, h.col(I[i+1]))
		}
		mrows, mcols := append([]uint64(nil), rows...), append([]uint64(nil), cols...)
		if err := f.bulkImport(rows, cols, &ImportOptions{Clear: clear}); err != nil {
			h.c.Fail("write-error", "bulkImport: %v", err)
			return
		}
		for i := range mrows {
			if clear {
				h.modelClear(mrows[i], mcols[i])
			} else {
				h.modelSet(mrows[i], mcols[i])
			}
		}
		h.lastWrite = fmt.Sprintf("import(clear=%v,%d bits)", clear, len(mrows))
	case "iroaring":
		clear := I[0] != 0
		var pos []uint64
		type rc struct{ r, c uint64 }
		var pairs []rc
		for i := 2; i+1 < len(I); i += 2 {
			r, c := uint64(I[i]), h.col(I[i+1])
			pairs = append(pairs, rc{r, c})
			pos = append(pos, r*ShardWidth+c%ShardWidth)
		}
		var data []byte
		switch I[1] {
		case 0:
			data = simrt.EncodePilosa(pos, 0, nil)
		case 1:
			data = simrt.EncodeOfficial(pos, false, nil)
		default:
			data = simrt.EncodeOfficial(pos, true, nil)
		}
		if err := f.importRoaring(context.Background(), data, clear); err != nil {
			h.c.Fail("write-error", "importRoaring: %v", err)
			return
		}
		for _, p := range pairs {
			if clear {
				h.modelClear(p.r, p.c)
			} else {
				h.modelSet(p.r, p.c)
			}
		}
		h.lastWrite = fmt.Sprintf("iroaring(clear=%v,fmt=%d,%d bits)", clear, I[1], len(pairs))
	case "fill": // I=[row, container, path, hole offsets...]: every column of one 65536-column container but the holes
		if h.kind != l2Set {
			return
		}
		row, base := uint64(I[0]), uint64(I[1]%16)*65536
		hole := map[uint64]bool{}
		for _, o := range I[3:] {
			hole[uint64(o)%65536] = true
		}
		var rows, cols, pos []uint64
		for o := uint64(0); o < 65536; o++ {
			if hole[o] {
				continue
			}
			c := h.col(int64(base + o))
			rows, cols = append(rows, row), append(cols, c)
			pos = append(pos, row*ShardWidth+c%ShardWidth)
		}
		var err error
		switch I[2] {
		case 0:
			err = f.bulkImport(append([]uint64(nil), rows...), append([]uint64(nil), cols...), &ImportOptions{})
		case 1:
			err = f.importRoaring(context.Background(), simrt.EncodePilosa(pos, 0, nil), false)
		default:
			err = f.importRoaring(context.Background(), simrt.EncodeOfficial(pos, I[2] == 3, nil), false)
		}
		if err != nil {
			h.c.Fail("write-error", "fill: %v", err)
			return
		}
		for i := range rows {
			h.modelSet(rows[i], cols[i])
		}
		h.c.Probe("container-filled")
		h.lastWrite = fmt.Sprintf("fill(row %d, container %d, path %d, %d holes)", row, I[1]%16, I[2], len(hole))
	case "setval":
		col, v := h.col(I[0]), I[1]
		got, err := f.setValue(col, h.depth, v)
		if err != nil {
			h.c.Fail("write-error", "setValue: %v", err)
			return
		}
		old, ok := h.vals[col]
		want := !ok || old != v
		h.vals[col] = v
		h.lastWrite = fmt.Sprintf("setval(%d,%d)", col, v)
		if got != want {
			h.fail("changed-flag", "setValue(%d,%d) changed=%v want %v", col, v, got, want)
		}
	case "clearval":
		col, v := h.col(I[0]), I[1]
		got, err := f.clearValue(col, h.depth, v)
		if err != nil {
			h.c.Fail("write-error", "clearValue: %v", err)
			return
		}
		_, ok := h.vals[col]
		delete(h.vals, col)
		h.lastWrite = fmt.Sprintf("clearval(%d)", col)
		if ok && !got {
			h.fail("changed-flag", "clearValue(%d) changed=false but a value existed", col)
		}
	case "importval":
		clear := I[0] != 0
		var cols []uint64
		var vs []int64
		for i := 1; i+1 < len(I); i += 2 {
			cols = append(cols, h.col(I[i]))
			vs = append(vs, I[i+1])
		}
		mc, mv := append([]uint64(nil), cols...), append([]int64(nil), vs...)
		if err := f.importValue(cols, vs, h.depth, clear); err != nil {
			h.c.Fail("write-error", "importValue: %v", err)
			return
		}
		for i := range mc {
			if clear {
				delete(h.vals, mc[i])
			} else {
				h.vals[mc[i]] = mv[i]
			}
		}
		h.lastWrite = fmt.Sprintf("importval(clear=%v,%d)", clear, len(mc))
	case "snapshot":
		isWrite = false
		if err := f.Snapshot(); err != nil {
			h.c.Fail("snapshot-error", "%v", err)
		}
		h.lastWrite += "+snapshot"
	case "flush":
		isWrite = false
		if err := f.FlushCache(); err != nil {
			h.c.Fail("flush-error", "%v", err)
		}
	case "recalc":
		isWrite = false
		f.RecalculateCache()
	case "reopen":
		isWrite = false
		h.close()
		if err := h.open(); err != nil {
			h.c.Fail("reopen-error", "%v", err)
			return
		}
		h.lastWrite += "+reopen"
	case "await":
		isWrite = false
		f.awaitSnapshot()
	case "archive": // keep the fragment's archive (what a resize transfers) and the model beside it
		isWrite = false
		var buf bytes.Buffer
		if _, err := f.WriteTo(&buf); err != nil {
			h.c.Fail("archive-error", "WriteTo: %v", err)
			return
		}
		h.archive = buf.Bytes()
		h.archBits = map[uint64]map[uint64]bool{}
		for r, m := range h.bits {
			h.archBits[r] = map[uint64]bool{}
			for c := range m {
				h.archBits[r][c] = true
			}
		}
		h.archVals = map[uint64]int64{}
		for c, v := range h.vals {
			h.archVals[c] = v
		}
	case "restore": // replace the fragment's contents with the kept archive (fragment.ReadFrom)
		if h.archive == nil {
			isWrite = false
			return
		}
		if _, err := f.ReadFrom(bytes.NewReader(h.archive)); err != nil {
			h.c.Fail("restore-error", "ReadFrom: %v", err)
			return
		}
		h.bits = map[uint64]map[uint64]bool{}
		for r, m := range h.archBits {
			h.bits[r] = map[uint64]bool{}
			for c := range m {
				h.bits[r][c] = true
			}
		}
		h.vals = map[uint64]int64{}
		for c, v := range h.archVals {
			h.vals[c] = v
		}
		h.lastWrite = "restore"
		h.c.Probe("restored-from-archive")
	default:
		isWrite = false
		h.read(op)
	}
	if isWrite && h.hooks.afterWrite != nil && !h.c.Failed() {
		h.hooks.afterWrite(h, op)
	}
}

func (h *l2) read(op simrt.Op) {
	f := h.f
	I := op.I
	switch op.K {
	case "rrow":
		r := uint64(I[0])
		got := f.row(r).Columns()
		want := sortedCols(h.bits[r])
		if !eqU64(got, want) {
			h.fail("row", "row(%d)=%s want %s", r, u64s(got), u64s(want))
		}
		if n := f.row(r).Count(); n != uint64(len(want)) {
			h.fail("row", "row(%d).Count()=%d want %d", r, n, len(want))
		}
	case "rbit":
		r, col := uint64(I[0]), h.col(I[1])
		simrt.RLock(&f.mu, "harness")
		got, err := f.bit(r, col)
		simrt.RUnlock(&f.mu)
		if err != nil {
			h.c.Fail("read-error", "bit: %v", err)
			return
		}
		if got != h.bits[r][col] {
			h.fail("bit", "bit(%d,%d)=%v want %v", r, col, got, h.bits[r][col])
		}
	case "rrows":
		start := uint64(I[0])
		got := f.rows(start)
		var want []uint64
		for r, m := range h.bits {
			if r >= start && len(m) > 0 {
				want = append(want, r)
			}
		}
		sort.Slice(want, func(i, j int) bool { return want[i] < want[j] })
		if !eqU64(got, want) {
			h.fail("rows", "rows(%d)=%v want %v", start, got, want)
		}
	case "rrowscol":
		start, col := uint64(I[0]), h.col(I[1])
		got := f.rows(start, filterColumn(col))
		var want []uint64
		for r, m := range h.bits {
			if r >= start && m[col] {
				want = append(want, r)
			}
		}
		sort.Slice(want, func(i, j int) bool { return want[i] < want[j] })
		if !eqU64(got, want) {
			h.fail("rows", "rows(%d,col=%d)=%v want %v", start, col, got, want)
		}
	case "rforeach", "rfull":
		h.fullCheck()
	case "rblocks":
		h.checkBlocks()
	case "rlog":
		h.checkLog()
	case "twin":
		h.twinCheck(I[0], I[1])
	case "rtop":
		h.checkTop(I)
	case "rmutex":
		h.checkMutex()
	case "sleep":
		simrt.Sleep(time.Duration(I[0]) * time.Second)
	case "rblock":
		b := int(I[0])
		gr, gc := f.blockData(b)
		var want [][2]uint64
		for r, m := range h.bits {
			if int(r/HashBlockSize) == b {
				for c := range m {
					want = append(want, [2]uint64{r, c % ShardWidth})
				}
			}
		}
		sort.Slice(want, func(i, j int) bool {
			if want[i][0] != want[j][0] {
				return want[i][0] < want[j][0]
			}
			return want[i][1] < want[j][1]
		})
		ok := len(gr) == len(want) && len(gc) == len(want)
		for i := 0; ok && i < len(want); i++ {
			ok = gr[i] == want[i][0] && gc[i] == want[i][1]
		}
		if !ok {
			h.fail("blockdata", "blockData(%d) rows=%s cols=%s want %v", b, u64s(gr), u64s(gc), want)
		}
	case "rvalue":
		col := h.col(I[0])
		got, ok, err := f.value(col, h.depth)
		if err != nil {
			h.c.Fail("read-error", "value: %v", err)
			return
		}
		want, wok := h.vals[col]
		if ok != wok || (ok && got != want) {
			h.fail("value", "value(%d)=(%d,%v) want (%d,%v)", col, got, ok, want, wok)
		}
	default:
		panic("l2: unknown op " + op.K)
	}
}

// fullCheck compares the whole fragment with the model through several read paths.
func (h *l2) fullCheck() {
	f := h.f
	if h.kind == l2Int {
		cols := make([]uint64, 0, len(h.vals))
		for c := range h.vals {
			cols = append(cols, c)
		}
		sort.Slice(cols, func(i, j int) bool { return cols[i] < cols[j] })
		for _, col := range cols {
			got, ok, err := f.value(col, h.depth)
			if err != nil || !ok || got != h.vals[col] {
				h.fail("value", "value(%d)=(%d,%v,%v) want %d", col, got, ok, err, h.vals[col])
				return
			}
		}
		// existence row must list exactly the columns with values
		got := f.row(bsiExistsBit).Columns()
		if !eqU64(got, cols) {
			h.fail("value", "not-null columns=%s want %s", u64s(got), u64s(cols))
		}
		return
	}
	got := map[uint64][]uint64{}
	if err := f.forEachBit(func(r, c uint64) error { got[r] = append(got[r], c); return nil }); err != nil {
		h.c.Fail("read-error", "forEachBit: %v", err)
		return
	}
	var rows []uint64
	for r, m := range h.bits {
		if len(m) > 0 {
			rows = append(rows, r)
		}
	}
	sort.Slice(rows, func(i, j int) bool { return rows[i] < rows[j] })
	var grows []uint64
	for r := range got {
		grows = append(grows, r)
	}
	sort.Slice(grows, func(i, j int) bool { return grows[i] < grows[j] })
	if !eqU64(grows, rows) {
		h.fail("foreach", "forEachBit rows=%v want %v", grows, rows)
		return
	}
	for _, r := range rows {
		want := sortedCols(h.bits[r])
		if !eqU64(got[r], want) {
			h.fail("foreach", "forEachBit row %d=%s want %s", r, u64s(got[r]), u64s(want))
			return
		}
		if rc := f.row(r).Columns(); !eqU64(rc, want) {
			h.fail("row", "row(%d)=%s want %s", r, u64s(rc), u64s(want))
			return
		}
	}
	if lr := f.rows(0); !eqU64(lr, rows) {
		h.fail("rows", "rows(0)=%v want %v", lr, rows)
	}
}

// ---- generation -------------------------------------------------------------

type l2Gen struct {
	r       *simrt.Rand
	kind    int
	rows    []int64
	cols    []int64
	enabled map[string]bool
	depth   uint
}

func pickCols(r *simrt.Rand) []int64 {
	sw := int64(ShardWidth)
	base := []int64{0, 1, 65535, 65536, 65537, sw - 1, sw - 65536, 131071}
	n := 3 + r.Intn(4)
	var cols []int64
	for i := 0; i < n; i++ {
		if r.Bool(0.7) {
			cols = append(cols, base[r.Intn(len(base))]%sw)
		} else {
			cols = append(cols, r.Int63n(sw))
		}
	}
	return cols
}

func (g *l2Gen) row() int64 { return g.rows[g.r.Intn(len(g.rows))] }
func (g *l2Gen) col() int64 { return g.cols[g.r.Intn(len(g.cols))] }
func (g *l2Gen) val() int64 {
	if g.depth == 0 {
		return 0 // the only value a bit depth of zero can hold
	}
	max := int64(1)<<g.depth - 1
	switch g.r.Intn(6) {
	case 0:
		return 0
	case 1:
		return max
	case 2:
		return -max
	case 3:
		return 1
	}
	v := g.r.Int63n(max + 1)
	if g.r.Bool(0.4) {
		v = -v
	}
	return v
}

func (g *l2Gen) pairs(n int, uniqueCols bool) []int64 {
	var out []int64
	seen := map[int64]bool{}
	for i := 0; i < n; i++ {
		c := g.col()
		if g.r.Bool(0.3) {
			c = (c + int64(g.r.Intn(5))) % int64(ShardWidth)
		}
		if uniqueCols {
			if seen[c] {
				continue
			}
			seen[c] = true
		}
		out = append(out, g.row(), c)
	}
	return out
}

// writeOp generates one write for the fragment kind.
func (g *l2Gen) writeOp() simrt.Op {
	r := g.r
	var cands []string
	switch g.kind {
	case l2Set:
		cands = []string{"set", "set", "clear", "setrow", "clearrow", "import", "import", "iroaring", "iroaring"}
	case l2Mutex, l2Bool:
		cands = []string{"set", "set", "clear", "import", "import"}
	case l2Int:
		cands = []string{"setval", "setval", "clearval", "importval", "importval"}
	}
	var en []string
	for _, k := range cands {
		if g.enabled == nil || g.enabled[k] {
			en = append(en, k)
		}
	}
	if len(en) == 0 {
		en = cands[:1]
	}
	k := en[r.Intn(len(en))]
	switch k {
	case "set", "clear":
		return simrt.Op{K: k, I: []int64{g.row(), g.col()}}
	case "setrow":
		n := r.Intn(5)
		I := []int64{g.row()}
		for i := 0; i < n; i++ {
			I = append(I, g.col())
		}
		return simrt.Op{K: k, I: I}
	case "clearrow":
		return simrt.Op{K: k, I: []int64{g.row()}}
	case "import":
		clear := int64(0)
		if r.Bool(0.3) {
			clear = 1
		}
		uniq := g.kind != l2Set && g.enabled["__uniquecols"]
		return simrt.Op{K: k, I: append([]int64{clear}, g.pairs(1+r.Intn(6), uniq)...)}
	case "iroaring":
		clear := int64(0)
		if r.Bool(0.3) {
			clear = 1
		}
		return simrt.Op{K: k, I: append([]int64{clear, int64(r.Intn(3))}, g.pairs(1+r.Intn(8), false)...)}
	case "setval":
		return simrt.Op{K: k, I: []int64{g.col(), g.val()}}
	case "clearval":
		return simrt.Op{K: k, I: []int64{g.col(), g.val()}}
	case "importval":
		clear := int64(0)
		if r.Bool(0.2) {
			clear = 1
		}
		n := 1 + r.Intn(6)
		I := []int64{clear}
		for i := 0; i < n; i++ {
			I = append(I, g.col(), g.val())
		}
		return simrt.Op{K: k, I: I}
	}
	panic("unreachable")
}

func (g *l2Gen) readOp() simrt.Op {
	r := g.r
	if g.kind == l2Int {
		if r.Bool(0.3) {
			return simrt.Op{K: "rfull"}
		}
		return simrt.Op{K: "rvalue", I: []int64{g.col()}}
	}
	switch r.Intn(7) {
	case 0:
		return simrt.Op{K: "rrow", I: []int64{g.row()}}
	case 1:
		return simrt.Op{K: "rbit", I: []int64{g.row(), g.col()}}
	case 2:
		return simrt.Op{K: "rrows", I: []int64{int64(r.Intn(3))}}
	case 3:
		return simrt.Op{K: "rrowscol", I: []int64{0, g.col()}}
	case 4:
		return simrt.Op{K: "rblock", I: []int64{g.row() / HashBlockSize}}
	case 5:
		return simrt.Op{K: "rrow", I: []int64{g.row()}}
	}
	return simrt.Op{K: "rfull"}
}

func (g *l2Gen) storageOp() simrt.Op {
	return simrt.Op{K: simrt.Pick(g.r, "snapshot", "snapshot", "reopen", "flush", "recalc", "await", "archive", "restore")}
}

func newL2Gen(r *simrt.Rand, kind int) *l2Gen {
	g := &l2Gen{r: r, kind: kind, depth: uint(simrt.Pick(r, 0, 1, 3, 8, 20, 62))}
	rowPool := []int64{0, 1, 2, 3, 99, 100, 101, 250}
	switch kind {
	case l2Bool:
		g.rows = []int64{0, 1}
	default:
		n := 2 + r.Intn(3)
		for i := 0; i < n; i++ {
			g.rows = append(g.rows, rowPool[r.Intn(len(rowPool))])
		}
	}
	g.cols = pickCols(r)
	return g
}

// l2Knobs draws the tuning knobs shared by the L2 properties.
func l2Knobs(r *simrt.Rand, kind int, g *l2Gen) map[string]int64 {
	return map[string]int64{
		"kind":       int64(kind),
		"shard":      simrt.Pick(r, int64(0), 0, 1, 3),
		"depth":      int64(g.depth),
		"cachetype":  int64(r.Intn(3)),
		"cachesize":  simrt.Pick(r, int64(1), 3, 50000),
		"maxopn":     simrt.Pick(r, int64(2), 5, 12, 10000),
		"queue":      simrt.Pick(r, int64(0), 0, 1, 2),
		"queuedepth": simrt.Pick(r, int64(1), 2, 100),
		// 1: the process is over its open-file limit (max-file-count), so the fragment
		// closes its data file after every operation and reopens it for the next write
		"fewfiles": simrt.Pick(r, int64(0), 0, 0, 0, 0, 1),
	}
}

func l2Sched(r *simrt.Rand) simrt.Config {
	cfg := simrt.Config{Seed: int64(r.Uint64() >> 1), ShuffleMaps: r.Bool(0.5)}
	if r.Bool(0.3) {
		cfg.Mode = "random"
	} else {
		n := r.Intn(5)
		for i := 0; i < n; i++ {
			cfg.Changes = append(cfg.Changes, r.Intn(400))
		}
		sort.Ints(cfg.Changes)
	}
	return cfg
}

func opsString(ops []simrt.Op) string {
	var sb strings.Builder
	for _, o := range ops {
		fmt.Fprintf(&sb, "%s%v ", o.K, o.I)
	}
	return sb.String()
}
