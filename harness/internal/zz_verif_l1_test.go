package pilosa

// L1 harness: one roaring.Bitmap whose "disk" is a simulated file (snapshot
// bytes + appended op log). Storage events (snapshot, reopen from bytes, remap,
// unmap) are the faults of this layer. Serves C02, C03 (bitmap half), C04, C05.

import (
	"bytes"
	"fmt"
	"hash/fnv"
	"sort"

	"github.com/pilosa/pilosa/roaring"
	"verif/simrt"
)

func init() {
	simrt.Register(&simrt.Prop{ID: "C02", Gen: genC02, Exec: execL1})
	simrt.Register(&simrt.Prop{ID: "C04", Gen: genC04, Exec: execL1})
	simrt.Register(&simrt.Prop{ID: "C05", Gen: genC05, Exec: execL1})
	simrt.Register(&simrt.Prop{ID: "C03", Gen: genC03, Exec: execC03})
}

type l1File struct {
	data []byte
	h    *l1
}

func (f *l1File) Write(p []byte) (int, error) {
	if err := simrt.FSPoint("write", "l1file"); err != nil {
		return 0, err
	}
	f.data = append(f.data, p...)
	return len(p), nil
}

type l1Derived struct {
	b    *roaring.Bitmap
	want []uint64
	how  string
}

type l1 struct {
	c      *simrt.Ctx
	btree  bool
	b      *roaring.Bitmap
	file   *l1File
	mapped []byte // the byte slice the bitmap's containers may point into
	m      map[uint64]struct{}
	ops    int
	opN    int
	flags  byte
	derived []*l1Derived
	last   string
	replayEvery bool
}

func (h *l1) fresh() *roaring.Bitmap {
	if h.btree {
		return roaring.NewBTreeBitmap()
	}
	return roaring.NewBitmap()
}

func newL1(c *simrt.Ctx) *l1 {
	h := &l1{c: c, btree: c.Plan.Knob("btree", 1) != 0, m: map[uint64]struct{}{}}
	h.b = h.fresh()
	h.flags = byte(c.Plan.Knob("flags", 0))
	h.b.Flags = h.flags
	h.file = &l1File{h: h}
	// a fragment file always starts with a snapshot of the (empty) bitmap
	h.b.WriteTo(h.file)
	h.b.OpWriter = h.file
	h.replayEvery = c.Plan.Knob("replayevery", 0) != 0
	return h
}

func (h *l1) fail(class, format string, a ...interface{}) {
	h.c.Fail(class, "after %s: %s", h.last, fmt.Sprintf(format, a...))
}

// expand turns (start,len) pairs into values.
func expand(I []int64) []uint64 {
	var out []uint64
	for i := 0; i+1 < len(I); i += 2 {
		if I[i+1] < 0 {
			// -n: n values with stride 2 (n one-value runs)
			for k := int64(0); k < -I[i+1]; k++ {
				out = append(out, uint64(I[i])+uint64(2*k))
			}
			continue
		}
		for k := int64(0); k < I[i+1]; k++ {
			out = append(out, uint64(I[i])+uint64(k))
		}
	}
	return out
}

func (h *l1) sorted() []uint64 {
	out := make([]uint64, 0, len(h.m))
	for v := range h.m {
		out = append(out, v)
	}
	sort.Slice(out, func(i, j int) bool { return out[i] < out[j] })
	return out
}

func sum32(b []byte) uint32 {
	f := fnv.New32a()
	f.Write(b)
	return f.Sum32()
}

func (h *l1) encode(vals []uint64, format int64) []byte {
	switch format {
	case 0:
		return simrt.EncodePilosa(vals, 0, nil)
	case 1:
		return simrt.EncodeOfficial(vals, false, nil)
	case 2:
		return simrt.EncodeOfficial(vals, true, nil)
	case 3: // pilosa, force bitmap containers
		return simrt.EncodePilosa(vals, 0, func(k uint64, n, r int) simrt.ContainerKind { return simrt.KindBitmap })
	case 4: // pilosa, force arrays where legal
		return simrt.EncodePilosa(vals, 0, func(k uint64, n, r int) simrt.ContainerKind {
			if n <= 4096 {
				return simrt.KindArray
			}
			return simrt.KindBitmap
		})
	case 5: // official with run cookie, every container run-encoded
		return simrt.EncodeOfficial(vals, true, func(k uint64, n, r int) bool { return true })
	default: // pilosa, runs
		return simrt.EncodePilosa(vals, 0, func(k uint64, n, r int) simrt.ContainerKind { return simrt.KindRun })
	}
}

func (h *l1) apply(op simrt.Op) {
	b := h.b
	I := op.I
	switch op.K {
	case "add":
		v := uint64(I[0])
		got, err := b.Add(v)
		if err != nil {
			h.c.Fail("write-error", "Add: %v", err)
			return
		}
		_, had := h.m[v]
		h.m[v] = struct{}{}
		h.last = fmt.Sprintf("add(%d)", v)
		if !had {
			h.ops, h.opN = h.ops+1, h.opN+1
		}
		if got == had {
			h.fail("changed-count", "Add(%d) changed=%v want %v", v, got, !had)
		}
	case "remove":
		v := uint64(I[0])
		got, err := b.Remove(v)
		if err != nil {
			h.c.Fail("write-error", "Remove: %v", err)
			return
		}
		_, had := h.m[v]
		delete(h.m, v)
		h.last = fmt.Sprintf("remove(%d)", v)
		if had {
			h.ops, h.opN = h.ops+1, h.opN+1
		}
		if got != had {
			h.fail("changed-count", "Remove(%d) changed=%v want %v", v, got, had)
		}
	case "addn", "removen":
		vals := expand(I)
		// unsorted, with duplicates: rotate and repeat a prefix
		if len(vals) > 2 {
			k := len(vals) / 3
			vals = append(append(append([]uint64{}, vals[k:]...), vals[:k]...), vals[:k]...)
		}
		arg := append([]uint64(nil), vals...)
		want := 0
		var got int
		var err error
		if op.K == "addn" {
			for _, v := range vals {
				if _, had := h.m[v]; !had {
					h.m[v] = struct{}{}
					want++
				}
			}
			got, err = b.AddN(arg...)
		} else {
			for _, v := range vals {
				if _, had := h.m[v]; had {
					delete(h.m, v)
					want++
				}
			}
			got, err = b.RemoveN(arg...)
		}
		if err != nil {
			h.c.Fail("write-error", "%s: %v", op.K, err)
			return
		}
		h.last = fmt.Sprintf("%s(%d values from %v)", op.K, len(vals), I)
		if want > 0 {
			h.ops, h.opN = h.ops+1, h.opN+want
		}
		if got != want {
			h.fail("changed-count", "%s changed=%d want %d", op.K, got, want)
		}
	case "import":
		clear, format := I[0] != 0, I[1]
		vals := expand(I[2:])
		data := h.encode(vals, format)
		before := sum32(data)
		got, _, err := b.ImportRoaringBits(data, clear, true, 0)
		if err != nil {
			h.c.Fail("write-error", "ImportRoaringBits(fmt=%d): %v", format, err)
			return
		}
		want := 0
		for _, v := range vals {
			_, had := h.m[v]
			if clear && had {
				delete(h.m, v)
				want++
			} else if !clear && !had {
				h.m[v] = struct{}{}
				want++
			}
		}
		h.last = fmt.Sprintf("import(clear=%v,fmt=%d,%v)", clear, format, I[2:])
		h.ops, h.opN = h.ops+1, h.opN+want
		if got != want {
			h.fail("changed-count", "ImportRoaringBits changed=%d want %d", got, want)
		}
		if sum32(data) != before {
			h.fail("input-modified", "ImportRoaringBits modified its input bytes")
		}
	case "optimize":
		b.Optimize()
		h.last += "+optimize"
	case "snapshot":
		// what fragment.snapshot does: encode to a new file, reset the op counters,
		// remap containers to the new file's bytes, release the old mapping.
		nf := &l1File{h: h}
		if _, err := b.WriteTo(nf); err != nil {
			h.c.Fail("write-error", "WriteTo: %v", err)
			return
		}
		h.file = nf
		b.OpWriter = nf
		b.SetOps(0, 0)
		h.ops, h.opN = 0, 0
		newMap := append([]byte(nil), nf.data...)
		if _, err := b.RemapRoaringStorage(newMap); err != nil {
			h.c.Fail("remap-error", "%v", err)
			return
		}
		h.releaseMapping()
		h.mapped = newMap
		h.last += "+snapshot"
	case "reopen":
		nb := h.fresh()
		nb.Flags = h.flags
		data := append([]byte(nil), h.file.data...)
		if err := nb.UnmarshalBinary(data); err != nil {
			h.fail("replay-error", "UnmarshalBinary(file): %v", err)
			return
		}
		nb.OpWriter = h.file
		h.b = nb
		h.releaseMapping()
		h.mapped = data
		h.last += "+reopen"
	case "unmap":
		if _, err := b.RemapRoaringStorage(nil); err != nil {
			h.c.Fail("remap-error", "%v", err)
			return
		}
		h.releaseMapping()
		h.last += "+unmap"
	case "rall":
		h.readAll()
	case "replaycheck":
		h.replayCheck()
	case "roundtrip":
		h.roundTrip()
	case "decode":
		h.decodeCheck(I)
	default:
		panic("l1: unknown op " + op.K)
	}
	if h.replayEvery && !h.c.Failed() {
		h.replayCheck()
	}
}

// releaseMapping emulates munmap of the previous mapping: its bytes become garbage.
func (h *l1) releaseMapping() {
	for i := range h.mapped {
		h.mapped[i] = 0xA5
	}
	h.mapped = nil
}

// readAll compares every read path with the model and with each other.
func (h *l1) readAll() {
	b := h.b
	want := h.sorted()
	if got := b.Slice(); !eqU64(got, want) {
		h.fail("read-slice", "Slice()=%s want %s", u64s(got), u64s(want))
		return
	}
	if n := b.Count(); n != uint64(len(want)) {
		h.fail("read-count", "Count()=%d want %d", n, len(want))
		return
	}
	if b.Any() != (len(want) > 0) {
		h.fail("read-any", "Any()=%v want %v", b.Any(), len(want) > 0)
		return
	}
	var fe []uint64
	b.ForEach(func(v uint64) { fe = append(fe, v) })
	if !eqU64(fe, want) {
		h.fail("read-foreach", "ForEach=%s want %s", u64s(fe), u64s(want))
		return
	}
	// iterator from the start
	it := b.Iterator()
	it.Seek(0)
	var iv []uint64
	for v, eof := it.Next(); !eof; v, eof = it.Next() {
		iv = append(iv, v)
		if len(iv) > len(want)+2 {
			break
		}
	}
	if !eqU64(iv, want) {
		h.fail("read-iterator", "Iterator=%s want %s", u64s(iv), u64s(want))
		return
	}
	// per-container view
	var cn uint64
	ci, _ := b.Containers.Iterator(0)
	for ci.Next() {
		_, c := ci.Value()
		cn += uint64(c.N())
	}
	if cn != uint64(len(want)) {
		h.fail("read-containers", "sum of container N=%d want %d", cn, len(want))
		return
	}
	if len(want) > 0 {
		if mn, ok := b.Min(); !ok || mn != want[0] {
			h.fail("read-min", "Min()=%d,%v want %d", mn, ok, want[0])
			return
		}
		if mx := b.Max(); mx != want[len(want)-1] {
			h.fail("read-max", "Max()=%d want %d", mx, want[len(want)-1])
			return
		}
	}
	// membership and ranges around a few model values
	probes := []uint64{0, 1, 65535, 65536}
	for i := 0; i < len(want) && i < 6; i++ {
		v := want[(i*7919)%len(want)]
		probes = append(probes, v, v+1, v-1)
	}
	for _, v := range probes {
		_, has := h.m[v]
		if b.Contains(v) != has {
			h.fail("read-contains", "Contains(%d)=%v want %v", v, b.Contains(v), has)
			return
		}
	}
	for i := 0; i+1 < len(probes); i += 2 {
		lo, hi := probes[i], probes[i+1]
		if lo > hi {
			lo, hi = hi, lo
		}
		wantN := uint64(0)
		var wantS []uint64
		for _, v := range want {
			if v >= lo && v < hi {
				wantN++
				wantS = append(wantS, v)
			}
		}
		if n := b.CountRange(lo, hi); n != wantN {
			h.fail("read-countrange", "CountRange(%d,%d)=%d want %d", lo, hi, n, wantN)
			return
		}
		if s := b.SliceRange(lo, hi); !eqU64(s, wantS) && !(len(s) == 0 && len(wantS) == 0) {
			h.fail("read-slicerange", "SliceRange(%d,%d)=%s want %s", lo, hi, u64s(s), u64s(wantS))
			return
		}
		it := b.Iterator()
		it.Seek(lo)
		var sv []uint64
		for v, eof := it.Next(); !eof && v < hi; v, eof = it.Next() {
			sv = append(sv, v)
		}
		if !eqU64(sv, wantS) && !(len(sv) == 0 && len(wantS) == 0) {
			h.fail("read-seek", "Seek(%d)..%d=%s want %s", lo, hi, u64s(sv), u64s(wantS))
			return
		}
	}
}

// replayCheck: decoding the file (snapshot + appended op log) must reproduce the live set and counters.
func (h *l1) replayCheck() {
	nb := h.fresh()
	data := append([]byte(nil), h.file.data...)
	if err := nb.UnmarshalBinary(data); err != nil {
		h.fail("replay-error", "UnmarshalBinary(file) failed: %v", err)
		return
	}
	if got, want := nb.Slice(), h.sorted(); !eqU64(got, want) {
		h.fail("replay-set", "decoded file=%s, live model=%s", u64s(got), u64s(want))
		return
	}
	lo, ln := h.b.Ops()
	do, dn := nb.Ops()
	if lo != do || ln != dn {
		h.fail("replay-counters", "decoded ops=(%d,%d) live bitmap reports (%d,%d)", do, dn, lo, ln)
		return
	}
	h.c.Probe("replay-checked")
}

// roundTrip: encoding then decoding yields the same set and flags.
func (h *l1) roundTrip() {
	var buf bytes.Buffer
	// encode a clone: WriteTo optimizes in place, and the property is about the value
	if _, err := h.b.Clone().WriteTo(&buf); err != nil {
		h.c.Fail("write-error", "WriteTo: %v", err)
		return
	}
	cl := h.b.Clone()
	cl.Flags = h.b.Flags
	buf.Reset()
	if _, err := cl.WriteTo(&buf); err != nil {
		h.c.Fail("write-error", "WriteTo: %v", err)
		return
	}
	for _, bt := range []bool{false, true} {
		var nb *roaring.Bitmap
		if bt {
			nb = roaring.NewBTreeBitmap()
		} else {
			nb = roaring.NewBitmap()
		}
		if err := nb.UnmarshalBinary(append([]byte(nil), buf.Bytes()...)); err != nil {
			h.fail("roundtrip", "decode of own encoding failed: %v", err)
			return
		}
		if got, want := nb.Slice(), h.sorted(); !eqU64(got, want) {
			h.fail("roundtrip", "decode(encode(b))=%s want %s", u64s(got), u64s(want))
			return
		}
		if nb.Flags != h.b.Flags {
			h.fail("roundtrip", "flags %d after round trip, want %d", nb.Flags, h.b.Flags)
			return
		}
	}
	h.c.Probe("roundtrip-checked")
}

// decodeCheck: I = [format, (start,len)...]; decode independent encoder output twice from the same buffer.
func (h *l1) decodeCheck(I []int64) {
	vals := expand(I[1:])
	if len(vals) == 0 {
		return
	}
	sort.Slice(vals, func(i, j int) bool { return vals[i] < vals[j] })
	uniq := vals[:0]
	for i, v := range vals {
		if i == 0 || v != vals[i-1] {
			uniq = append(uniq, v)
		}
	}
	data := h.encode(uniq, I[0])
	before := sum32(data)
	h.last = fmt.Sprintf("decode(fmt=%d,%v)", I[0], I[1:])
	for pass := 0; pass < 2; pass++ {
		var nb *roaring.Bitmap
		if pass == 0 && h.btree {
			nb = roaring.NewBTreeBitmap()
		} else {
			nb = roaring.NewBitmap()
		}
		if err := nb.UnmarshalBinary(data); err != nil {
			h.fail("decode-error", "pass %d: valid bytes rejected: %v", pass, err)
			return
		}
		if got := nb.Slice(); !eqU64(got, uniq) {
			h.fail("decode-set", "pass %d: decoded %s want %s", pass, u64s(got), u64s(uniq))
			return
		}
		if sum32(data) != before {
			h.fail("input-modified", "UnmarshalBinary modified its input bytes (pass %d)", pass)
			return
		}
	}
	h.c.Probe("decode-checked")
}

// ---- generation -------------------------------------------------------------

type l1Gen struct {
	r    *simrt.Rand
	keys []uint64
	off  bool // restrict keys to < 65536 (official format)
}

func newL1Gen(r *simrt.Rand) *l1Gen {
	g := &l1Gen{r: r}
	pool := []uint64{0, 0, 1, 2, 15, 16, 65535, 65536, 1 << 30, 1<<47 + 3}
	n := 1 + r.Intn(3)
	g.keys = []uint64{0}
	for i := 1; i < n; i++ {
		g.keys = append(g.keys, pool[r.Intn(len(pool))])
	}
	return g
}

func (g *l1Gen) val(official bool) int64 {
	k := g.keys[g.r.Intn(len(g.keys))]
	if official && k > 65535 {
		k = k % 65536
	}
	low := simrt.Pick(g.r, uint64(0), 1, 2, 4095, 4096, 4097, 65534, 65535, uint64(g.r.Intn(65536)), uint64(g.r.Intn(64)))
	return int64(k<<16 | low)
}

// ranges returns (start,len) pairs; some long enough to cross the array/bitmap/run thresholds.
func (g *l1Gen) ranges(official bool) []int64 {
	var out []int64
	n := 1 + g.r.Intn(4)
	for i := 0; i < n; i++ {
		start := g.val(official)
		ln := simrt.Pick(g.r, int64(1), 1, 1, 2, 3, 17, 300, 4096, 4097, 5000, 65536)
		if official && start+ln > 1<<32 {
			ln = 1<<32 - start
		}
		out = append(out, start, ln)
	}
	if g.r.Bool(0.15) {
		// many short runs: every other value
		start := g.val(official) &^ 0xFFFF
		cnt := simrt.Pick(g.r, 2047, 2048, 2049, 4097)
		if official && start+int64(2*cnt) > 1<<32 {
			start = 0
		}
		out = append(out, start, int64(-cnt))
	}
	return out
}

func (g *l1Gen) mutation(formats []int64) simrt.Op {
	r := g.r
	switch r.Intn(9) {
	case 0, 1:
		return simrt.Op{K: "add", I: []int64{g.val(false)}}
	case 2:
		return simrt.Op{K: "remove", I: []int64{g.val(false)}}
	case 3:
		return simrt.Op{K: "addn", I: g.ranges(false)}
	case 4:
		return simrt.Op{K: "removen", I: g.ranges(false)}
	case 5, 6, 7:
		f := formats[r.Intn(len(formats))]
		official := f == 1 || f == 2 || f == 5
		clear := int64(0)
		if r.Bool(0.35) {
			clear = 1
		}
		return simrt.Op{K: "import", I: append([]int64{clear, f}, g.ranges(official)...)}
	}
	return simrt.Op{K: "optimize"}
}

func l1Plan(r *simrt.Rand) *simrt.Plan {
	return &simrt.Plan{Knobs: map[string]int64{"btree": int64(r.Intn(2)), "flags": int64(r.Intn(2))}, Sched: simrt.Config{Seed: 1}}
}

var allFormats = []int64{0, 1, 2, 3, 4, 5, 6}

func genC02(r *simrt.Rand, tier string) *simrt.Plan {
	p := l1Plan(r)
	if r.Bool(0.7) {
		p.Knobs["btree"] = 1
	}
	g := newL1Gen(r)
	n := 5 + r.Intn(40)
	var ops []simrt.Op
	if r.Bool(0.12) {
		// wide bitmap: one bit in each of several hundred containers, so that the B-tree has
		// more than one leaf page; later mutations aim at the keys around page boundaries
		nc := int64(simrt.Pick(r, 300, 520, 700, 1100))
		var I []int64
		for k := int64(0); k < nc; k++ {
			I = append(I, k<<16|7, 1)
		}
		ops = append(ops, simrt.Op{K: "addn", I: I})
		g.keys = []uint64{uint64(r.Intn(int(nc))), uint64(r.Intn(int(nc))), 253, 254, 255, 256, 507, 508, 509, uint64(nc - 1), uint64(nc)}
		n = 5 + r.Intn(15)
	}
	for i := 0; i < n; i++ {
		switch x := r.Intn(10); {
		case x < 5:
			ops = append(ops, g.mutation(allFormats))
		case x < 8:
			ops = append(ops, simrt.Op{K: "rall"})
		default:
			ops = append(ops, simrt.Op{K: simrt.Pick(r, "snapshot", "reopen", "unmap", "snapshot")})
		}
	}
	ops = append(ops, simrt.Op{K: "rall"})
	p.Clients = [][]simrt.Op{ops}
	return p
}

func genC05(r *simrt.Rand, tier string) *simrt.Plan {
	if m := simrt.Mode("C05", 2); m != nil && r.Bool(0.3) {
		return m.Gen(r, tier) // fragment level: the fragment file decoded against the live storage
	}
	p := l1Plan(r)
	p.Knobs["replayevery"] = 1
	g := newL1Gen(r)
	n := 3 + r.Intn(30)
	var ops []simrt.Op
	for i := 0; i < n; i++ {
		switch x := r.Intn(10); {
		case x < 8:
			ops = append(ops, g.mutation(allFormats))
		default:
			ops = append(ops, simrt.Op{K: simrt.Pick(r, "snapshot", "reopen", "snapshot", "unmap")})
		}
	}
	ops = append(ops, simrt.Op{K: "rall"})
	p.Clients = [][]simrt.Op{ops}
	return p
}

func genC04(r *simrt.Rand, tier string) *simrt.Plan {
	p := l1Plan(r)
	g := newL1Gen(r)
	n := 3 + r.Intn(16)
	var ops []simrt.Op
	for i := 0; i < n; i++ {
		switch x := r.Intn(10); {
		case x < 4:
			ops = append(ops, g.mutation(allFormats), simrt.Op{K: "rall"})
		case x < 7:
			f := allFormats[r.Intn(len(allFormats))]
			official := f == 1 || f == 2 || f == 5
			ops = append(ops, simrt.Op{K: "decode", I: append([]int64{f}, g.ranges(official)...)})
		case x < 9:
			ops = append(ops, simrt.Op{K: "roundtrip"})
		default:
			ops = append(ops, simrt.Op{K: simrt.Pick(r, "snapshot", "reopen")})
		}
	}
	if tier == "thorough" && r.Bool(0.02) {
		// 2^16 containers of the official format
		I := []int64{int64(simrt.Pick(r, 1, 2))}
		for k := int64(0); k < 65536; k++ {
			I = append(I, k<<16|int64(r.Intn(4)), 1)
		}
		ops = append(ops, simrt.Op{K: "decode", I: I})
	}
	if r.Bool(0.15) {
		// a payload with many containers (counts around multiples of 8: the official
		// format's is-run bitmap has one bit per container), decoded and imported
		nc := int64(simrt.Pick(r, 7, 8, 9, 16, 17, 24, 64, 65))
		f := allFormats[r.Intn(len(allFormats))]
		I := []int64{f}
		for k := int64(0); k < nc; k++ {
			ln := int64(simrt.Pick(r, 1, 3, 300))
			if k == nc/2 && r.Bool(0.5) {
				ln = 5000 // one bitmap container among arrays/runs
			}
			I = append(I, k<<16|int64(r.Intn(8)), ln)
		}
		ops = append(ops, simrt.Op{K: "decode", I: I}, simrt.Op{K: "import", I: append([]int64{int64(r.Intn(2))}, I...)}, simrt.Op{K: "rall"})
	}
	ops = append(ops, simrt.Op{K: "roundtrip"}, simrt.Op{K: "rall"})
	p.Clients = [][]simrt.Op{ops}
	return p
}

func execL1(c *simrt.Ctx) {
	c.Do("c0", func() {
		h := newL1(c)
		c.State = h
		for _, op := range c.Plan.Clients[0] {
			if c.Failed() {
				return
			}
			h.apply(op)
			c.Logf("%s%v n=%d", op.K, op.I, len(h.m))
			c.OpDone()
		}
	})
}

// ---- C03: isolation of derived values (bitmap half) ---------------------------

func genC03(r *simrt.Rand, tier string) *simrt.Plan {
	if m := simrt.Mode("C03", 2); m != nil && r.Bool(0.35) {
		return m.Gen(r, tier) // fragment level: rows handed out by a real fragment and values derived from them
	}
	p := l1Plan(r)
	p.Knobs["btree"] = int64(simrt.Pick(r, 1, 1, 0))
	g := newL1Gen(r)
	n := 4 + r.Intn(26)
	var ops []simrt.Op
	for i := 0; i < n; i++ {
		switch x := r.Intn(12); {
		case x < 4:
			ops = append(ops, g.mutation(allFormats))
		case x < 7:
			ops = append(ops, simrt.Op{K: "derive", I: append([]int64{int64(r.Intn(8))}, g.ranges(false)...)})
		case x < 8:
			ops = append(ops, simrt.Op{K: "mutd", I: []int64{int64(r.Intn(4)), g.val(false)}})
		case x < 10:
			ops = append(ops, simrt.Op{K: "checkd"})
		default:
			ops = append(ops, simrt.Op{K: simrt.Pick(r, "snapshot", "reopen", "unmap", "snapshot")})
		}
	}
	ops = append(ops, simrt.Op{K: "checkd"}, simrt.Op{K: "rall"})
	p.Clients = [][]simrt.Op{ops}
	return p
}

func (h *l1) derive(I []int64) {
	other := roaring.NewBitmap(expand(I[1:])...)
	var d *roaring.Bitmap
	how := ""
	switch I[0] {
	case 0:
		d, how = h.b.Clone(), "Clone"
	case 1:
		d, how = h.b.Freeze(), "Freeze"
	case 2:
		d, how = h.b.Union(other), "Union"
	case 3:
		d, how = h.b.Intersect(other), "Intersect"
	case 4:
		d, how = h.b.Difference(other), "Difference"
	case 5:
		d, how = h.b.Xor(other), "Xor"
	case 6:
		// a whole-container aligned window, as fragment.rowFromStorage does
		start := uint64(I[1]) &^ 0xFFFF
		d, how = h.b.OffsetRange(0, start, start+(1<<20)), fmt.Sprintf("OffsetRange(0,%d,+2^20)", start)
	default:
		d, how = other.Union(h.b), "other.Union(b)"
	}
	h.derived = append(h.derived, &l1Derived{b: d, want: d.Slice(), how: how})
	if len(h.derived) > 4 {
		h.derived = h.derived[1:]
	}
	h.last += "+derive:" + how
}

func (h *l1) checkDerived() {
	for i, d := range h.derived {
		if got := d.b.Slice(); !eqU64(got, d.want) {
			h.fail("derived-changed", "value %d derived by %s was %s, now reads %s", i, d.how, u64s(d.want), u64s(got))
			return
		}
		if n := d.b.Count(); n != uint64(len(d.want)) {
			h.fail("derived-changed", "value %d derived by %s had %d values, Count() now %d", i, d.how, len(d.want), n)
			return
		}
	}
	h.c.ProbeN("derived-checked", len(h.derived))
}

func execC03(c *simrt.Ctx) {
	c.Do("c0", func() {
		h := newL1(c)
		c.State = h
		for _, op := range c.Plan.Clients[0] {
			if c.Failed() {
				return
			}
			switch op.K {
			case "derive":
				h.derive(op.I)
			case "mutd":
				if len(h.derived) > 0 {
					d := h.derived[int(op.I[0])%len(h.derived)]
					v := uint64(op.I[1])
					if _, err := d.b.Add(v); err != nil {
						c.Fail("write-error", "derived Add: %v", err)
						return
					}
					// record the derived value's new contents as observed
					found := false
					for _, x := range d.want {
						if x == v {
							found = true
						}
					}
					if !found {
						d.want = append(d.want, v)
						sort.Slice(d.want, func(i, j int) bool { return d.want[i] < d.want[j] })
					}
					h.last += fmt.Sprintf("+mutd(%s,%d)", d.how, v)
					// the source must not have changed
					h.readAll()
				}
			case "checkd":
				h.checkDerived()
			default:
				h.apply(op)
			}
			c.Logf("%s%v n=%d", op.K, op.I, len(h.m))
			c.OpDone()
		}
	})
}
