package pilosa

// C05 at fragment level (plan knob mode=2): the fragment file (snapshot bytes
// followed by the appended operation log) is decoded into a fresh bitmap after
// writes, snapshots and reopens, and compared with the live storage bitmap: same
// set, same operation and bit-change counters (fragment ops/opN accounting).

import (
	"fmt"
	"os"

	"github.com/pilosa/pilosa/roaring"
	"verif/simrt"
)

func init() {
	simrt.RegisterMode("C05", 2, &simrt.Prop{ID: "C05", Gen: genC05Frag, Exec: execL2Seq})
}

func (h *l2) checkLog() {
	f := h.f
	if h.queue != nil {
		f.awaitSnapshot()
	}
	data, err := os.ReadFile(h.path)
	if err != nil {
		h.fail("log-read", "%v", err)
		return
	}
	bm := roaring.NewFileBitmap()
	if err := bm.UnmarshalBinary(data); err != nil {
		h.fail("log-decode", "decoding the fragment file (%d bytes): %v", len(data), err)
		return
	}
	live := f.storage.Slice()
	dec := bm.Slice()
	if !eqU64(live, dec) {
		h.fail("replay-set", "decoding the fragment file gives %s, the live storage holds %s", u64s(dec), u64s(live))
		return
	}
	lo, ln := f.storage.Ops()
	do, dn := bm.Ops()
	if lo != do || ln != dn {
		h.fail("replay-counters", "decoding the fragment file gives ops=(%d,%d), the live storage bitmap reports (%d,%d)", do, dn, lo, ln)
		return
	}
	h.c.Probe("fragment-log-decoded")
}

func genC05Frag(r *simrt.Rand, tier string) *simrt.Plan {
	kind := simrt.Pick(r, l2Set, l2Set, l2Mutex, l2Int)
	g := newL2Gen(r, kind)
	g.enabled = map[string]bool{"__uniquecols": true}
	for _, k := range []string{"set", "clear", "import", "iroaring", "setval", "clearval", "importval"} {
		if r.Bool(0.75) {
			g.enabled[k] = true
		}
	}
	p := &simrt.Plan{Knobs: l2Knobs(r, kind, g), Sched: l2Sched(r)}
	p.Knobs["mode"] = 2
	p.Knobs["queue"] = 0 // snapshots in the foreground: the file is complete whenever it is read
	n := 3 + r.Intn(25)
	var ops []simrt.Op
	for i := 0; i < n; i++ {
		switch x := r.Intn(10); {
		case x < 6:
			ops = append(ops, g.writeOp())
		case x < 8:
			ops = append(ops, simrt.Op{K: "rlog"})
		default:
			ops = append(ops, simrt.Op{K: simrt.Pick(r, "snapshot", "snapshot", "reopen")})
		}
	}
	ops = append(ops, simrt.Op{K: "rlog"})
	p.Clients = [][]simrt.Op{ops}
	_ = fmt.Sprint
	return p
}
