package pilosa

// C09 with two clients (plan knob mode=3): an int fragment with a snapshot queue;
// client 0 imports value batches large enough to take the bulk path (written to
// storage without logging, made durable by the snapshot the import waits for),
// client 1 writes single values to other columns meanwhile. The data directory is
// copied at every file-system-operation boundary; in every copy each client's
// acknowledged writes must be present (columns of a write still in flight are
// not judged).

import (
	"fmt"
	"os"
	"path/filepath"
	"sort"
	"strings"

	"verif/simrt"
)

func init() {
	simrt.RegisterMode("C09", 3, &simrt.Prop{ID: "C09", Gen: genC09Conc, Exec: execC09Conc})
}

func genC09Conc(r *simrt.Rand, tier string) *simrt.Plan {
	g := newL2Gen(r, l2Int)
	g.depth = uint(simrt.Pick(r, 3, 8, 20))
	p := &simrt.Plan{Knobs: l2Knobs(r, l2Int, g), Sched: l2Sched(r)}
	p.Knobs["mode"] = 3
	p.Knobs["queue"] = int64(simrt.Pick(r, 1, 2))
	p.Knobs["maxopn"] = int64(simrt.Pick(r, 5, 12))
	p.Knobs["fewfiles"] = 0
	p.Knobs["depth"] = int64(g.depth)
	max := int64(1)<<g.depth - 1
	val := func() int64 {
		v := r.Int63n(max + 1)
		if r.Bool(0.4) {
			v = -v
		}
		return v
	}
	var a, b []simrt.Op
	for i := 0; i < 1+r.Intn(3); i++ {
		I := []int64{0}
		seen := map[int64]bool{}
		for k := 0; k < 3+r.Intn(6); k++ {
			c := int64(r.Intn(8)) // client 0 owns column offsets 0..7
			if seen[c] {
				continue
			}
			seen[c] = true
			I = append(I, c, val())
		}
		a = append(a, simrt.Op{K: "importval", I: I})
	}
	for i := 0; i < 2+r.Intn(6); i++ {
		c := int64(100 + r.Intn(6)) // client 1 owns column offsets 100..105
		if r.Bool(0.8) {
			b = append(b, simrt.Op{K: "setval", I: []int64{c, val()}})
		} else {
			b = append(b, simrt.Op{K: "importval", I: []int64{0, c, val()}})
		}
	}
	p.Clients = [][]simrt.Op{a, b}
	return p
}

// c09Cols returns the column offsets an op writes.
func c09Cols(op simrt.Op) []int64 {
	switch op.K {
	case "setval", "clearval":
		return []int64{op.I[0]}
	case "importval":
		var out []int64
		for i := 1; i+1 < len(op.I); i += 2 {
			out = append(out, op.I[i])
		}
		return out
	}
	return nil
}

// c09Apply applies an op to a column-offset -> value model.
func c09Apply(m map[int64]int64, op simrt.Op) {
	switch op.K {
	case "setval":
		m[op.I[0]] = op.I[1]
	case "importval":
		for i := 1; i+1 < len(op.I); i += 2 {
			if op.I[0] != 0 {
				delete(m, op.I[i])
			} else {
				m[op.I[i]] = op.I[i+1]
			}
		}
	}
}

type c09ConcBoundary struct {
	n        int
	acked    [2]int
	inflight [2]bool
	what     string
}

func execC09Conc(c *simrt.Ctx) {
	var h *l2
	var bounds []c09ConcBoundary
	var acked [2]int
	var inflight [2]bool
	imgRoot := c.Dir + "/img"
	nfs := 0
	ok := c.Do("setup", func() {
		h = newL2(c)
		c.State = h
		if err := h.open(); err != nil {
			c.Fail("open-error", "%v", err)
			return
		}
		c.S.FSHook = func(op, path string) error {
			if !strings.HasPrefix(path, c.Dir+"/frag") {
				return nil
			}
			nfs++
			if nfs > 400 {
				return nil
			}
			if err := copyTree(c.Dir+"/frag", fmt.Sprintf("%s/%d", imgRoot, nfs)); err != nil {
				panic(err)
			}
			bounds = append(bounds, c09ConcBoundary{n: nfs, acked: acked, inflight: inflight, what: op + " " + filepath.Base(path)})
			return nil
		}
	})
	if !ok || c.Failed() {
		return
	}
	for ci := 0; ci < 2; ci++ {
		ci := ci
		c.Go(fmt.Sprintf("c%d", ci), func() {
			for _, op := range c.Plan.Clients[ci] {
				if c.Stopped() {
					return
				}
				inflight[ci] = true
				var err error
				switch op.K {
				case "setval":
					_, err = h.f.setValue(h.col(op.I[0]), h.depth, op.I[1])
				case "importval":
					var cols []uint64
					var vs []int64
					for i := 1; i+1 < len(op.I); i += 2 {
						cols = append(cols, h.col(op.I[i]))
						vs = append(vs, op.I[i+1])
					}
					err = h.f.importValue(cols, vs, h.depth, op.I[0] != 0)
				}
				if err != nil {
					c.Fail("write-error", "client %d %s%v: %v", ci, op.K, op.I, err)
					return
				}
				inflight[ci] = false
				acked[ci]++
				c.OpDone()
			}
		})
	}
	c.RunTasks()
	if c.Stopped() {
		c.S.FSHook = nil
		c.Do("teardown", func() { h.close() })
		c.Do("shutdown", func() { h.shutdown() })
		return
	}
	c.Do("teardown", func() { h.close() })
	c.S.FSHook = nil
	c.Do("shutdown", func() { h.shutdown() })
	c.Do("recover", func() {
		for _, b := range bounds {
			if c.Failed() {
				return
			}
			path := fmt.Sprintf("%s/%d/%d", imgRoot, b.n, h.shard)
			if _, err := os.Stat(path); err != nil {
				continue
			}
			f := h.newFrag(path)
			f.snapshotQueue = nil
			if err := f.Open(); err != nil {
				c.Fail("restart-blocked", "image at fs-op #%d (%s): open failed: %v", b.n, b.what, err)
				return
			}
			for ci := 0; ci < 2 && !c.Failed(); ci++ {
				ops := c.Plan.Clients[ci]
				m := map[int64]int64{}
				touched := map[int64]bool{}
				for i := 0; i < b.acked[ci]; i++ {
					c09Apply(m, ops[i])
					for _, col := range c09Cols(ops[i]) {
						touched[col] = true
					}
				}
				skip := map[int64]bool{}
				if b.inflight[ci] && b.acked[ci] < len(ops) {
					for _, col := range c09Cols(ops[b.acked[ci]]) {
						skip[col] = true
					}
				}
				var cols []int64
				for col := range touched {
					cols = append(cols, col)
				}
				sort.Slice(cols, func(i, j int) bool { return cols[i] < cols[j] })
				for _, col := range cols {
					if skip[col] {
						continue
					}
					want, has := m[col]
					got, exists, err := f.value(h.col(col), h.depth)
					if err != nil {
						c.Fail("recovered-unreadable", "image at fs-op #%d: %v", b.n, err)
						break
					}
					if exists != has || (has && got != want) {
						c.Fail("lost-acked", "image at fs-op #%d (%s): column offset %d reads (%d, present=%v) but client %d's acknowledged writes (%d of %d ops returned, in flight=%v) leave it at (%d, present=%v); the other client had %d ops acknowledged, in flight=%v",
							b.n, b.what, col, got, exists, ci, b.acked[ci], len(ops), b.inflight[ci], want, has, b.acked[1-ci], b.inflight[1-ci])
						break
					}
				}
			}
			f.Close()
			c.Probe("concurrent-images-checked")
		}
	})
	c.ProbeN("concurrent-fs-boundaries", len(bounds))
}
