package pilosa

// C07: every shard read reflects all completed writes, whatever the write path.

import (
	"verif/simrt"
)

func init() {
	simrt.Register(&simrt.Prop{ID: "C07", Gen: genC07, Exec: execL2Seq})
}

func genC07(r *simrt.Rand, tier string) *simrt.Plan {
	kind := simrt.Pick(r, l2Set, l2Set, l2Set, l2Mutex, l2Bool, l2Int, l2Int)
	g := newL2Gen(r, kind)
	// swarm: enable a random subset of write kinds
	g.enabled = map[string]bool{"__uniquecols": true}
	for _, k := range []string{"set", "clear", "setrow", "clearrow", "import", "iroaring", "setval", "clearval", "importval"} {
		if r.Bool(0.7) {
			g.enabled[k] = true
		}
	}
	p := &simrt.Plan{Knobs: l2Knobs(r, kind, g), Sched: l2Sched(r)}
	n := 5 + r.Intn(40)
	if tier == "thorough" {
		n = 5 + r.Intn(70)
	}
	var ops []simrt.Op
	for i := 0; i < n; i++ {
		switch x := r.Intn(10); {
		case x < 5:
			ops = append(ops, g.writeOp())
		case x < 9:
			ops = append(ops, g.readOp())
		default:
			ops = append(ops, g.storageOp())
		}
	}
	if kind == l2Set && r.Bool(0.15) {
		// a container that is full but for one or two columns, then the missing columns written
		// through the other paths (and one present column cleared and written again)
		row, cont := g.row(), int64(r.Intn(16))
		fill := simrt.Op{K: "fill", I: []int64{row, cont, int64(r.Intn(4))}}
		var holes []int64
		for k := 1 + r.Intn(2); k > 0; k-- {
			o := simrt.Pick(r, int64(0), 65535, 1, int64(r.Intn(65536)))
			holes = append(holes, o)
			fill.I = append(fill.I, o)
		}
		extra := []simrt.Op{fill}
		if r.Bool(0.3) {
			extra = append(extra, g.storageOp())
		}
		if r.Bool(0.3) {
			o := int64(r.Intn(65536))
			extra = append(extra, simrt.Op{K: "clear", I: []int64{row, cont*65536 + o}})
			holes = append(holes, o)
		}
		for _, o := range holes {
			col := cont*65536 + o
			switch r.Intn(4) {
			case 0:
				extra = append(extra, simrt.Op{K: "set", I: []int64{row, col}})
			case 1:
				extra = append(extra, simrt.Op{K: "import", I: []int64{0, row, col}})
			default:
				extra = append(extra, simrt.Op{K: "iroaring", I: []int64{0, int64(r.Intn(3)), row, col}})
			}
			extra = append(extra, simrt.Op{K: "rbit", I: []int64{row, col}})
		}
		extra = append(extra, simrt.Op{K: "rrow", I: []int64{row}})
		at := r.Intn(len(ops) + 1)
		ops = append(ops[:at:at], append(extra, ops[at:]...)...)
	}
	ops = append(ops, simrt.Op{K: "rfull"})
	p.Clients = [][]simrt.Op{ops}
	return p
}

// execL2Seq runs client 0's ops sequentially against one fragment (background
// snapshot workers, if configured, are separate scheduler tasks).
func execL2Seq(c *simrt.Ctx) {
	var h *l2
	ok := c.Do("setup", func() {
		h = newL2(c)
		c.State = h
		if err := h.open(); err != nil {
			c.Fail("open-error", "%v", err)
		}
	})
	if ok && !c.Failed() {
		c.Do("c0", func() {
			for _, op := range c.Plan.Clients[0] {
				if c.Failed() {
					return
				}
				h.apply(op)
				c.OpDone()
			}
		})
	}
	if !c.Failed() {
		c.Do("teardown", func() { h.close() })
	}
	c.Do("shutdown", func() { h.shutdown() })
}
