package pilosa

// C29 (controlled stage): concurrent clients on one shared fragment under
// lock-granularity schedules; recorded histories checked for linearizability.

import (
	"context"
	"fmt"
	"sort"
	"strings"
	"time"

	"github.com/anishathalye/porcupine"
	"verif/simrt"
)

func init() {
	simrt.Register(&simrt.Prop{ID: "C29", Gen: genC29, Exec: execC29, Post: postC29, RaceClass: "map-race"})
}

type c29Op struct {
	op  simrt.Op
	out string
}

type c29State struct {
	h    *l2
	hist []porcupine.Operation
}

func genC29(r *simrt.Rand, tier string) *simrt.Plan {
	if m := simrt.Mode("C29", 2); m != nil && r.Bool(0.03) {
		// node level: concurrent clients against a real Server (harness in the external
		// test package); one such run costs as much as some fifty fragment-level ones
		return m.Gen(r, tier)
	}
	kind := simrt.Pick(r, l2Set, l2Set, l2Set, l2Mutex)
	g := newL2Gen(r, kind)
	g.rows = g.rows[:2]
	g.cols = g.cols[:2+r.Intn(2)]
	g.enabled = map[string]bool{}
	for _, k := range []string{"set", "clear", "setrow", "clearrow", "import", "iroaring"} {
		if r.Bool(0.75) {
			g.enabled[k] = true
		}
	}
	p := &simrt.Plan{Knobs: l2Knobs(r, kind, g)}
	nc := 2 + r.Intn(3)
	for c := 0; c < nc; c++ {
		n := 2 + r.Intn(6)
		var ops []simrt.Op
		for i := 0; i < n; i++ {
			switch x := r.Intn(12); {
			case x < 6:
				ops = append(ops, g.writeOp())
			case x < 10:
				ops = append(ops, simrt.Pick(r,
					simrt.Op{K: "rrow", I: []int64{g.row()}},
					simrt.Op{K: "rbit", I: []int64{g.row(), g.col()}},
					simrt.Op{K: "rrows", I: []int64{0}},
					simrt.Op{K: "rrowheld", I: []int64{g.row(), int64(1 + r.Intn(12))}}))
			default:
				ops = append(ops, simrt.Op{K: simrt.Pick(r, "snapshot", "flush", "recalc", "recalc", "rblocksraw", "rtopraw", "rtopsrc", "rtopsrc"), I: []int64{g.row()}})
			}
		}
		p.Clients = append(p.Clients, ops)
	}
	// schedule: more change points, spread over the expected run length
	cfg := simrt.Config{Seed: int64(r.Uint64() >> 1)}
	if r.Bool(0.4) {
		cfg.Mode = "random"
	} else {
		n := 1 + r.Intn(6)
		for i := 0; i < n; i++ {
			cfg.Changes = append(cfg.Changes, r.Intn(250))
		}
		sort.Ints(cfg.Changes)
	}
	p.Sched = cfg
	return p
}

// doConcurrent executes op on the fragment without touching any model and
// returns a canonical output string.
func (h *l2) doConcurrent(op simrt.Op) (string, error) {
	f := h.f
	I := op.I
	switch op.K {
	case "set":
		ch, err := f.setBit(uint64(I[0]), h.col(I[1]))
		return fmt.Sprint(ch), err
	case "clear":
		ch, err := f.clearBit(uint64(I[0]), h.col(I[1]))
		return fmt.Sprint(ch), err
	case "setrow":
		var cols []uint64
		for _, o := range I[1:] {
			cols = append(cols, h.col(o))
		}
		_, err := f.setRow(NewRow(cols...), uint64(I[0]))
		return "", err
	case "clearrow":
		ch, err := f.clearRow(uint64(I[0]))
		return fmt.Sprint(ch), err
	case "import":
		var rows, cols []uint64
		for i := 1; i+1 < len(I); i += 2 {
			rows = append(rows, uint64(I[i]))
			cols = append(cols, h.col(I[i+1]))
		}
		return "", f.bulkImport(rows, cols, &ImportOptions{Clear: I[0] != 0})
	case "iroaring":
		var pos []uint64
		for i := 2; i+1 < len(I); i += 2 {
			pos = append(pos, uint64(I[i])*ShardWidth+h.col(I[i+1])%ShardWidth)
		}
		var data []byte
		switch I[1] {
		case 0:
			data = simrt.EncodePilosa(pos, 0, nil)
		case 1:
			data = simrt.EncodeOfficial(pos, false, nil)
		default:
			data = simrt.EncodeOfficial(pos, true, nil)
		}
		return "", f.importRoaring(context.Background(), data, I[0] != 0)
	case "rrow":
		return fmt.Sprint(f.row(uint64(I[0])).Columns()), nil
	case "rrowheld": // I=[row, yields]: the row is fetched, other tasks run, then it is read
		row := f.row(uint64(I[0]))
		for i := int64(0); i < I[1]; i++ {
			simrt.Yield("row-held")
		}
		return fmt.Sprint(row.Columns()), nil
	case "rbit":
		simrt.RLock(&f.mu, "harness")
		b, err := f.bit(uint64(I[0]), h.col(I[1]))
		simrt.RUnlock(&f.mu)
		return fmt.Sprint(b), err
	case "rrows":
		return fmt.Sprint(f.rows(uint64(I[0]))), nil
	case "snapshot":
		return "", f.Snapshot()
	case "flush":
		return "", f.FlushCache()
	case "recalc":
		f.RecalculateCache()
		return "", nil
	case "rblocksraw":
		f.Blocks()
		return "", nil
	case "rtopraw":
		_, err := f.top(topOptions{N: 2})
		return "", err
	case "rtopsrc": // I=[row]: TopN against a source row; per ranked row the fragment lock is taken again
		if f.CacheType == CacheTypeNone {
			return "", nil
		}
		src := f.row(uint64(I[0]))
		srcN := src.Count()
		pairs, err := f.top(topOptions{N: 3, Src: src})
		seen := map[uint64]bool{}
		for _, p := range pairs {
			if seen[p.ID] {
				h.c.Fail("topn-duplicate", "top(N=3, Src=row %d) lists row %d twice: %v", I[0], p.ID, pairs)
			}
			seen[p.ID] = true
			if p.Count == 0 || p.Count > srcN {
				h.c.Fail("topn-count", "top(N=3, Src=row %d with %d columns) reports row %d with count %d: %v", I[0], srcN, p.ID, p.Count, pairs)
			}
		}
		return "", err
	case "rstate":
		var sb strings.Builder
		err := f.forEachBit(func(r, c uint64) error { fmt.Fprintf(&sb, "%d:%d ", r, c); return nil })
		return sb.String(), err
	}
	panic("c29: unknown op " + op.K)
}

func execC29(c *simrt.Ctx) {
	st := &c29State{}
	c.State = st
	var h *l2
	if !c.Do("setup", func() {
		h = newL2(c)
		st.h = h
		if err := h.open(); err != nil {
			c.Fail("open-error", "%v", err)
		}
	}) || c.Failed() {
		return
	}
	type rec struct {
		porcupine.Operation
	}
	var hist []porcupine.Operation
	add := func(o porcupine.Operation) {
		// called from tasks; tasks run one at a time, but guard anyway through the scheduler's Tick ordering
		hist = append(hist, o)
	}
	for ci, ops := range c.Plan.Clients {
		ci, ops := ci, ops
		c.Go(fmt.Sprintf("c%d", ci), func() {
			for _, op := range ops {
				if c.Failed() {
					return
				}
				call := c.S.Tick()
				out, err := h.doConcurrent(op)
				ret := c.S.Tick()
				if err != nil {
					c.Fail("op-error", "%s%v: %v", op.K, op.I, err)
					return
				}
				add(porcupine.Operation{ClientId: ci, Input: c29Op{op: op}, Output: out, Call: call, Return: ret})
				c.OpDone()
			}
		})
	}
	if !c.RunTasks() || c.Failed() {
		return
	}
	c.Do("final", func() {
		call := c.S.Tick()
		out, err := h.doConcurrent(simrt.Op{K: "rstate"})
		ret := c.S.Tick()
		if err != nil {
			c.Fail("op-error", "rstate: %v", err)
			return
		}
		add(porcupine.Operation{ClientId: len(c.Plan.Clients), Input: c29Op{op: simrt.Op{K: "rstate"}}, Output: out, Call: call, Return: ret})
	})
	st.hist = hist
	if !c.Failed() {
		c.Do("teardown", func() { h.close() })
	}
	c.Do("shutdown", func() { h.shutdown() })
}

// ---- sequential specification -------------------------------------------------

// state: sorted "r:c" strings joined by space (canonical).
type c29Bits map[[2]uint64]bool

func parseState(s string) c29Bits {
	m := c29Bits{}
	for _, f := range strings.Fields(s) {
		var r, c uint64
		fmt.Sscanf(f, "%d:%d", &r, &c)
		m[[2]uint64{r, c}] = true
	}
	return m
}

func (m c29Bits) String() string {
	ks := make([][2]uint64, 0, len(m))
	for k := range m {
		ks = append(ks, k)
	}
	sort.Slice(ks, func(i, j int) bool {
		if ks[i][0] != ks[j][0] {
			return ks[i][0] < ks[j][0]
		}
		return ks[i][1] < ks[j][1]
	})
	var sb strings.Builder
	for _, k := range ks {
		fmt.Fprintf(&sb, "%d:%d ", k[0], k[1])
	}
	return sb.String()
}

func c29Model(shard uint64, mutex bool) porcupine.Model {
	col := func(off int64) uint64 { return shard*ShardWidth + uint64(off)%ShardWidth }
	set := func(m c29Bits, r, c uint64) bool {
		if mutex {
			for k := range m {
				if k[1] == c && k[0] != r {
					delete(m, k)
				}
			}
		}
		if m[[2]uint64{r, c}] {
			return false
		}
		m[[2]uint64{r, c}] = true
		return true
	}
	clr := func(m c29Bits, r, c uint64) bool {
		if m[[2]uint64{r, c}] {
			delete(m, [2]uint64{r, c})
			return true
		}
		return false
	}
	return porcupine.Model{
		Init: func() interface{} { return "" },
		Step: func(state, input, output interface{}) (bool, interface{}) {
			m := parseState(state.(string))
			in := input.(c29Op).op
			out := output.(string)
			I := in.I
			switch in.K {
			case "set":
				ch := set(m, uint64(I[0]), col(I[1]))
				return out == fmt.Sprint(ch), m.String()
			case "clear":
				ch := clr(m, uint64(I[0]), col(I[1]))
				return out == fmt.Sprint(ch), m.String()
			case "setrow":
				for k := range m {
					if k[0] == uint64(I[0]) {
						delete(m, k)
					}
				}
				for _, o := range I[1:] {
					m[[2]uint64{uint64(I[0]), col(o)}] = true
				}
				return true, m.String()
			case "clearrow":
				ch := false
				for k := range m {
					if k[0] == uint64(I[0]) {
						delete(m, k)
						ch = true
					}
				}
				return out == fmt.Sprint(ch), m.String()
			case "import":
				for i := 1; i+1 < len(I); i += 2 {
					if I[0] != 0 {
						clr(m, uint64(I[i]), col(I[i+1]))
					} else {
						set(m, uint64(I[i]), col(I[i+1]))
					}
				}
				return true, m.String()
			case "iroaring":
				for i := 2; i+1 < len(I); i += 2 {
					if I[0] != 0 {
						clr(m, uint64(I[i]), col(I[i+1]))
					} else {
						set(m, uint64(I[i]), col(I[i+1]))
					}
				}
				return true, m.String()
			case "rrow", "rrowheld":
				var cols []uint64
				for k := range m {
					if k[0] == uint64(I[0]) {
						cols = append(cols, k[1])
					}
				}
				sort.Slice(cols, func(i, j int) bool { return cols[i] < cols[j] })
				return out == fmt.Sprint(cols), state
			case "rbit":
				return out == fmt.Sprint(m[[2]uint64{uint64(I[0]), col(I[1])}]), state
			case "rrows":
				seen := map[uint64]bool{}
				rows := []uint64{}
				for k := range m {
					if k[0] >= uint64(I[0]) && !seen[k[0]] {
						seen[k[0]] = true
						rows = append(rows, k[0])
					}
				}
				sort.Slice(rows, func(i, j int) bool { return rows[i] < rows[j] })
				return out == fmt.Sprint(rows), state
			case "rstate":
				return out == state.(string), state
			}
			return true, state
		},
		Equal: func(a, b interface{}) bool { return a.(string) == b.(string) },
		DescribeOperation: func(input, output interface{}) string {
			in := input.(c29Op).op
			return fmt.Sprintf("%s%v->%s", in.K, in.I, output)
		},
	}
}

func postC29(c *simrt.Ctx) {
	st, _ := c.State.(*c29State)
	if st == nil || len(st.hist) == 0 {
		return
	}
	model := c29Model(st.h.shard, st.h.kind == l2Mutex)
	res := porcupine.CheckOperationsTimeout(model, st.hist, 10*time.Second)
	switch res {
	case porcupine.Illegal:
		var sb strings.Builder
		hs := append([]porcupine.Operation(nil), st.hist...)
		sort.Slice(hs, func(i, j int) bool { return hs[i].Call < hs[j].Call })
		for _, o := range hs {
			fmt.Fprintf(&sb, "  c%d [%d,%d] %s\n", o.ClientId, o.Call, o.Return, model.DescribeOperation(o.Input, o.Output))
		}
		c.Fail("not-linearizable", "history has no sequential explanation:\n%s", sb.String())
	case porcupine.Unknown:
		c.Inconclusive("porcupine-timeout")
	default:
		c.Probe("linearizable-histories")
	}
}
