package pilosa

// Thin adapter exposing a few internals to the external harness package
// (compiled into the test binary only).

import (
	"fmt"
	"sort"

	"github.com/pkg/errors"

	"verif/simrt"
)

// VClusterInfo is a snapshot of a node's cluster view.
type VClusterInfo struct {
	State       string
	NodeIDs     []string
	Topology    []string
	Coordinator string
	JobRunning  bool
	JobCount    int
	ReplicaN    int
	Jobs        []string // "id:state" sorted
	ID          string   // cluster id
}

// VCluster returns the server's current cluster view.
func VCluster(s *Server) VClusterInfo {
	c := s.cluster
	simrt.RLock(&c.mu, "harness")
	defer simrt.RUnlock(&c.mu)
	info := VClusterInfo{ID: c.id, State: c.state, Coordinator: c.Coordinator, JobRunning: c.currentJob != nil, JobCount: len(c.jobs), ReplicaN: c.ReplicaN}
	for _, n := range c.nodes {
		info.NodeIDs = append(info.NodeIDs, n.ID)
	}
	for id, j := range c.jobs {
		info.Jobs = append(info.Jobs, fmt.Sprintf("%d:%s", id, j.state))
	}
	sort.Strings(info.Jobs)
	if c.Topology != nil {
		info.Topology = append(info.Topology, c.Topology.nodeIDs...)
	}
	return info
}

// VFragKey identifies a fragment on a node.
type VFragKey struct {
	Index, Field, View string
	Shard              uint64
}

// VFragments lists the fragments a node currently holds.
func VFragments(s *Server) []VFragKey {
	var out []VFragKey
	for _, idx := range s.holder.Indexes() {
		for _, f := range idx.Fields() {
			for _, v := range f.views() {
				for _, fr := range v.allFragments() {
					out = append(out, VFragKey{idx.Name(), f.Name(), v.name, fr.shard})
				}
			}
		}
	}
	sort.Slice(out, func(i, j int) bool {
		a, b := out[i], out[j]
		if a.Index != b.Index {
			return a.Index < b.Index
		}
		if a.Field != b.Field {
			return a.Field < b.Field
		}
		if a.View != b.View {
			return a.View < b.View
		}
		return a.Shard < b.Shard
	})
	return out
}

// VFragmentBits returns the (row, column) pairs stored in one fragment of a node, or ok=false.
func VFragmentBits(s *Server, k VFragKey) (bits [][2]uint64, ok bool) {
	fr := s.holder.fragment(k.Index, k.Field, k.View, k.Shard)
	if fr == nil {
		return nil, false
	}
	fr.forEachBit(func(r, c uint64) error { bits = append(bits, [2]uint64{r, c}); return nil })
	return bits, true
}

// VOwnsShard reports whether the node considers itself an owner of the shard.
func VOwnsShard(s *Server, index string, shard uint64) bool {
	return s.cluster.ownsShard(s.nodeID, index, shard)
}

// VPartition returns the partition a shard maps to.
func VPartition(s *Server, index string, shard uint64) int {
	return s.cluster.partition(index, shard)
}

// VReleaseJoin lets a server whose Open is still waiting to be admitted to the
// cluster proceed (used at teardown only, so that it can be closed).
func VReleaseJoin(s *Server) {
	c := s.cluster
	simrt.WLock(&c.mu, "harness")
	c.markAsJoined()
	simrt.WUnlock(&c.mu)
}

// VIsNotAllowed reports whether err is the state gate's refusal.
func VIsNotAllowed(err error) bool {
	_, ok := errors.Cause(err).(apiMethodNotAllowedError)
	return ok
}
