package pilosa

import "testing"

func TestVerifSmoke(t *testing.T) { t.Log("ok") }
