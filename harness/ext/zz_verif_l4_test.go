package pilosa_test

// L3/L4 harness core: 1..5 real pilosa Servers (+API +http.Handler) in one
// process, talking through simrt.Net; cluster membership events are delivered by
// a stub that calls API.ClusterMessage exactly as the gossip layer does.

import (
	"bytes"
	"context"
	"fmt"
	"net"
	gohttp "net/http"
	"regexp"
	"sort"
	"strings"
	"time"

	"github.com/pilosa/pilosa"
	"github.com/pilosa/pilosa/boltdb"
	"github.com/pilosa/pilosa/encoding/proto"
	"github.com/pilosa/pilosa/http"
	"github.com/pilosa/pilosa/roaring"
	"github.com/pilosa/pilosa/syswrap"
	"verif/simrt"
)

// simLogger routes a node's log lines into the run's event log (addresses are
// scrubbed so the log stays comparable between runs).
var uuidRE = regexp.MustCompile(`[0-9a-f]{8}-[0-9a-f]{4}-[0-9a-f]{4}-[0-9a-f]{4}-[0-9a-f]{12}`)

var runDirRE = regexp.MustCompile(`/[^ ]*/run[0-9]+`)

type simLogger struct {
	c  *simrt.Ctx
	id string
	nd *simNode
}

func (l *simLogger) Printf(format string, v ...interface{}) {
	msg := fmt.Sprintf(format, v...)
	if l.nd != nil && strings.HasPrefix(msg, "change cluster state from") {
		l.nd.stateSeq++
	}
	msg = uuidRE.ReplaceAllString(msg, "UUID") // the cluster id comes from crypto/rand
	if i := strings.Index(msg, "0x"); i >= 0 {
		msg = msg[:i] + "0x?"
	}
	msg = runDirRE.ReplaceAllString(msg, "") // the run's scratch directory has a random name
	l.c.Logf("LOG %s %s", l.id, msg)
}
func (l *simLogger) Debugf(format string, v ...interface{}) {
	if strings.HasPrefix(format, "broadcasting create shard took") {
		// view.CreateFragmentIfNotExists stopped waiting for its CreateShardMessage after 50 ms
		slowShardAnnounce = true
	}
}

// slowShardAnnounce: in this run a write that created a shard was acknowledged before every
// node had been told about the shard (reset by the harnesses that read it).
var slowShardAnnounce bool

type fakeListener struct{ addr string }

func (l *fakeListener) Accept() (net.Conn, error) { select {} }
func (l *fakeListener) Close() error              { return nil }
func (l *fakeListener) Addr() net.Addr            { return fakeAddr(l.addr) }

type fakeAddr string

func (a fakeAddr) Network() string { return "sim" }
func (a fakeAddr) String() string  { return string(a) }

type simNode struct {
	cl       *simCluster
	idx      int
	id       string
	host     string
	uri      *pilosa.URI
	dir      string
	srv      *pilosa.Server
	api      *pilosa.API
	hdl      *http.Handler
	client   *http.InternalClient // client whose default URI is this node (src = this node)
	ext      *http.InternalClient // external client pointed at this node (src = "client")
	coord    bool
	opened   bool
	opening  bool // an asynchronous Open is in flight
	released bool
	stateSeq int  // number of cluster state changes this node has logged
	gone     bool // removed from the cluster by a completed resize
	ser      pilosa.Serializer
}

type simCluster struct {
	c          *simrt.Ctx
	net        *simrt.Net
	nodes      []*simNode
	replicas   int
	poolSize   int
	serWrap    func(n *simNode, s pilosa.Serializer) pilosa.Serializer
	aeInterval time.Duration
	idFor      func(i int) string // node id of the i-th node (default "node<i>")
	dirPrefix  string             // distinguishes the data directories of a second cluster in one run
}

// joinNodeAsync builds nd and opens it in a background task, then delivers its
// join event to the coordinator; it does not wait for the node to be admitted.
func (cl *simCluster) joinNodeAsync(nd *simNode) error {
	if err := nd.build(); err != nil {
		return err
	}
	nd.opening = true
	cl.c.S.GoTask("open-"+nd.id, func() {
		defer func() { nd.opening = false }()
		if err := nd.srv.Open(); err != nil {
			cl.c.Logf("open %s failed: %v", nd.id, err)
			return
		}
		nd.opened = true
	})
	return cl.deliverJoin(cl.coordinator(), nd)
}

func newSimCluster(c *simrt.Ctx, n, replicas int) *simCluster {
	syswrap.SetMaxFileCount(500000) // a fragment-level run in this process may have lowered it
	cl := &simCluster{c: c, net: simrt.NewNet(c.S), replicas: replicas}
	gohttp.DefaultClient.Transport = cl.net.Transport("")
	for i := 0; i < n; i++ {
		cl.addNodeSpec()
	}
	return cl
}

func (cl *simCluster) addNodeSpec() *simNode {
	i := len(cl.nodes)
	host := fmt.Sprintf("n%d:10101", i)
	uri, err := pilosa.NewURIFromAddress("http://" + host)
	if err != nil {
		panic(err)
	}
	id := fmt.Sprintf("node%d", i)
	if cl.idFor != nil {
		id = cl.idFor(i)
	}
	nd := &simNode{cl: cl, idx: i, id: id, host: host, uri: uri, dir: fmt.Sprintf("%s/%snode%d", cl.c.Dir, cl.dirPrefix, i), coord: i == 0}
	cl.nodes = append(cl.nodes, nd)
	return nd
}

// build creates the Server/API/Handler objects of a node on its data directory.
func (nd *simNode) build() error {
	cl := nd.cl
	hc := &gohttp.Client{Transport: cl.net.Transport(nd.host)}
	nd.client = http.NewInternalClientFromURI(nd.uri, hc)
	nd.ext = http.NewInternalClientFromURI(nd.uri, &gohttp.Client{Transport: cl.net.Transport("client")})
	var ser pilosa.Serializer = proto.Serializer{}
	if cl.serWrap != nil {
		ser = cl.serWrap(nd, ser)
	}
	nd.ser = ser
	opts := []pilosa.ServerOption{
		pilosa.OptServerDataDir(nd.dir),
		pilosa.OptServerURI(nd.uri),
		pilosa.OptServerNodeID(nd.id),
		pilosa.OptServerIsCoordinator(nd.coord),
		pilosa.OptServerReplicaN(cl.replicas),
		pilosa.OptServerAttrStoreFunc(boltdb.NewAttrStore),
		pilosa.OptServerInternalClient(nd.client),
		pilosa.OptServerPrimaryTranslateStoreFunc(http.NewTranslateStore),
		pilosa.OptServerSerializer(ser),
		pilosa.OptServerTranslateFileMapSize(1 << 22),
		pilosa.OptServerAntiEntropyInterval(cl.aeInterval),
		pilosa.OptServerDiagnosticsInterval(0),
		pilosa.OptServerMetricInterval(0),
		pilosa.OptServerLogger(&simLogger{c: cl.c, id: nd.id, nd: nd}),
	}
	if cl.poolSize > 0 {
		opts = append(opts, pilosa.OptServerExecutorPoolSize(cl.poolSize))
	}
	srv, err := pilosa.NewServer(opts...)
	if err != nil {
		return fmt.Errorf("NewServer(%s): %v", nd.id, err)
	}
	api, err := pilosa.NewAPI(pilosa.OptAPIServer(srv))
	if err != nil {
		return err
	}
	hdl, err := http.NewHandler(http.OptHandlerAPI(api), http.OptHandlerListener(&fakeListener{nd.host}))
	if err != nil {
		return err
	}
	nd.srv, nd.api, nd.hdl = srv, api, hdl
	cl.net.Register(nd.host, hdl)
	cl.net.SetDown(nd.host, false)
	return nil
}

func (nd *simNode) node() *pilosa.Node {
	return &pilosa.Node{ID: nd.id, URI: *nd.uri, IsCoordinator: nd.coord}
}

// deliver hands a cluster message to observer the way gossip does.
func (cl *simCluster) deliver(observer *simNode, m pilosa.Message) error {
	buf, err := pilosa.MarshalInternalMessage(m, proto.Serializer{})
	if err != nil {
		return err
	}
	c27NoteSent(m, buf[1:])
	return observer.api.ClusterMessage(context.Background(), bytes.NewReader(buf))
}

func (cl *simCluster) deliverJoin(observer, joiner *simNode) error {
	return cl.deliver(observer, &pilosa.NodeEvent{Event: pilosa.NodeJoin, Node: joiner.node()})
}

func (cl *simCluster) deliverLeave(observer, leaver *simNode) error {
	return cl.deliver(observer, &pilosa.NodeEvent{Event: pilosa.NodeLeave, Node: leaver.node()})
}

// nodeStatus builds the state memberlist push/pull exchanges (gossip.memberSet.LocalState).
func (nd *simNode) nodeStatus() *pilosa.NodeStatus {
	ctx := context.Background()
	m := &pilosa.NodeStatus{Node: nd.api.Node(), Schema: &pilosa.Schema{Indexes: nd.api.Schema(ctx)}}
	for _, idx := range m.Schema.Indexes {
		is := &pilosa.IndexStatus{Name: idx.Name}
		for _, f := range idx.Fields {
			av := roaring.NewBitmap()
			if field, _ := nd.api.Field(ctx, idx.Name, f.Name); field != nil {
				av = field.AvailableShards()
			}
			is.Fields = append(is.Fields, &pilosa.FieldStatus{Name: f.Name, AvailableShards: av})
		}
		m.Indexes = append(m.Indexes, is)
	}
	return m
}

// start opens the coordinator, then every other node, joining them one at a
// time. It must run inside a task. Opening a non-coordinator blocks until the
// coordinator has admitted it, so each Open runs in its own task.
func (cl *simCluster) start() error {
	for _, nd := range cl.nodes {
		if err := nd.build(); err != nil {
			return err
		}
	}
	if err := cl.nodes[0].srv.Open(); err != nil {
		return fmt.Errorf("open coordinator: %v", err)
	}
	cl.nodes[0].opened = true
	for _, nd := range cl.nodes[1:] {
		if err := cl.joinNode(nd); err != nil {
			return err
		}
	}
	return nil
}

// joinNode opens nd (already built) in a helper task and delivers its join event to the coordinator.
func (cl *simCluster) joinNode(nd *simNode) error {
	errc := make(chan error, 1)
	cl.c.S.GoClient("open-"+nd.id, func() {
		errc <- nd.srv.Open()
	})
	if err := cl.deliverJoin(cl.coordinator(), nd); err != nil {
		return fmt.Errorf("join %s: %v", nd.id, err)
	}
	simrt.Yield("await-open")
	err := <-errc
	simrt.Yield("opened")
	if err != nil {
		return fmt.Errorf("open %s: %v", nd.id, err)
	}
	nd.opened = true
	return nil
}

func (cl *simCluster) coordinator() *simNode {
	for _, nd := range cl.nodes {
		if nd.coord {
			return nd
		}
	}
	return cl.nodes[0]
}

// awaitState waits (in simulated time) until every open node reports state.
func (cl *simCluster) awaitState(state string, maxSim time.Duration) bool {
	deadline := time.Now().Add(maxSim)
	for {
		ok := true
		for _, nd := range cl.nodes {
			if nd.opened && nd.api.State() != state {
				ok = false
			}
		}
		if ok {
			return true
		}
		if time.Now().After(deadline) {
			return false
		}
		simrt.Sleep(50 * time.Millisecond)
	}
}

func (cl *simCluster) states() string {
	var s []string
	for _, nd := range cl.nodes {
		if nd.opened {
			s = append(s, nd.id+"="+nd.api.State())
		}
	}
	return strings.Join(s, " ")
}

// closeAll shuts every open node down (teardown task).
func (cl *simCluster) closeAll() {
	for i := len(cl.nodes) - 1; i >= 0; i-- {
		nd := cl.nodes[i]
		if nd.srv != nil && nd.opening {
			// never admitted (its join was aborted): Open waits for admission with no
			// way out; admit it by hand so that Open returns and the server can be closed
			nd.released = true
			co := cl.coordinator()
			cs := &pilosa.ClusterStatus{ClusterID: "teardown", State: pilosa.ClusterStateNormal, Nodes: []*pilosa.Node{co.node(), nd.node()}}
			if err := cl.deliver(nd, cs); err != nil {
				cl.c.Logf("release %s: %v", nd.id, err)
			}
			for k := 0; k < 2000 && nd.opening; k++ {
				simrt.Sleep(10 * time.Millisecond)
			}
		}
		if nd.srv != nil && (nd.opened || nd.released) {
			nd.close()
		}
	}
	gohttp.DefaultClient.Transport = nil
}

func (nd *simNode) close() error {
	nd.opened = false
	nd.cl.net.SetDown(nd.host, true)
	err := nd.srv.Close()
	nd.api.Close()
	return err
}

// restartSingle closes and reopens a single-node cluster's node on its directory.
func (cl *simCluster) restartSingle() error {
	nd := cl.nodes[0]
	if err := nd.close(); err != nil {
		return fmt.Errorf("close: %v", err)
	}
	if err := nd.build(); err != nil {
		return err
	}
	if err := nd.srv.Open(); err != nil {
		return fmt.Errorf("reopen: %v", err)
	}
	nd.opened = true
	return nil
}

// query runs PQL on node i through the external client (HTTP + protobuf over simnet).
func (cl *simCluster) query(i int, index, pql string) ([]interface{}, error) {
	nd := cl.nodes[i]
	resp, err := nd.ext.Query(context.Background(), index, &pilosa.QueryRequest{Index: index, Query: pql})
	if err != nil {
		return nil, err
	}
	if resp.Err != nil {
		return nil, resp.Err
	}
	return resp.Results, nil
}

// queryShards runs PQL restricted to shards.
func (cl *simCluster) queryOpt(i int, index, pql string, req *pilosa.QueryRequest) (*pilosa.QueryResponse, error) {
	nd := cl.nodes[i]
	req.Index, req.Query = index, pql
	return nd.ext.Query(context.Background(), index, req)
}

func rowColumns(v interface{}) ([]uint64, bool) {
	r, ok := v.(*pilosa.Row)
	if !ok {
		return nil, false
	}
	return r.Columns(), true
}

func sortedU64(m map[uint64]bool) []uint64 {
	out := make([]uint64, 0, len(m))
	for k, ok := range m {
		if ok {
			out = append(out, k)
		}
	}
	sort.Slice(out, func(i, j int) bool { return out[i] < out[j] })
	return out
}

func equalU64(a, b []uint64) bool {
	if len(a) != len(b) {
		return false
	}
	for i := range a {
		if a[i] != b[i] {
			return false
		}
	}
	return true
}

func fmtU64(a []uint64) string {
	if len(a) > 20 {
		return fmt.Sprintf("%v...(%d)", a[:20], len(a))
	}
	return fmt.Sprint(a)
}
