// The simulation binary is built with a go.mod whose go line is >= 1.24 (simrt
// needs testing/synctest), where math/rand.Seed is a no-op by default; execC30
// seeds the global source because http.InternalClient.ExportCSV picks the
// replica to export from with the global rand.Perm.
//
//go:debug randseednop=0
package pilosa_test

// C30: exporting a field and importing the export reproduces it.
//
// A set field "src" (keyed or unkeyed rows, in a keyed or unkeyed index) is
// filled through PQL Set / Clear and the import endpoints on a simulated 1-3
// node cluster, exported shard by shard as CSV by the logic of
// ctl.ExportCommand, and the CSV text is imported into an empty twin field
// "dst" by the real CSV parsing, batching and routing code of
// ctl.ImportCommand (importPath -> bufferBits -> importBits). Afterwards dst
// must hold exactly the bits and keys of src (and of the harness's model).
//
// ctl's commands build their HTTP client with ctl.commandClient ->
// http.GetHTTPClient, a net/http.Transport with a real dialer that is neither
// a field of the command structs nor net/http's DefaultTransport, so their Run
// methods cannot be pointed at the simulated network without editing /repo.
// What is stubbed here is therefore exactly that client construction:
//   - export: ExportCommand.Run's loop (MaxShardByIndex, then ExportCSV for
//     shard 0..max into the output writer) is replicated by runCtlExport on a
//     real ctl.ExportCommand value;
//   - import: ImportCommand.Run's preamble (Schema lookup of field type and
//     key options) is replicated by runCtlImport, which then sets the
//     command's unexported client field and calls the command's own unexported
//     importPath method (reached with go:linkname), i.e. the CSV reader, the
//     BufferSize batching, GroupByShard/Sort and the Import/ImportK calls are
//     ctl's.
// Both use a real http.InternalClient built the way commandClient builds it
// (http.NewInternalClient(host, client)), over the simulated transport.

import (
	"bytes"
	"context"
	"encoding/csv"
	"errors"
	"fmt"
	"io"
	mrand "math/rand"
	gohttp "net/http"
	"os"
	"path/filepath"
	"reflect"
	"sort"
	"strconv"
	"strings"
	"time"
	"unsafe"

	"github.com/pilosa/pilosa"
	"github.com/pilosa/pilosa/ctl"
	"github.com/pilosa/pilosa/http"
	"verif/simrt"
)

func init() {
	simrt.Register(&simrt.Prop{ID: "C30", Gen: genC30, Exec: execC30})
}

// ctlImportPath is (*ctl.ImportCommand).importPath of the tree under test.
//
//go:linkname ctlImportPath github.com/pilosa/pilosa/ctl.(*ImportCommand).importPath
func ctlImportPath(cmd *ctl.ImportCommand, ctx context.Context, fieldType string, useColumnKeys, useRowKeys bool, path string) error

// ---- generator ----------------------------------------------------------------

var c30LongKey = strings.Repeat("k0123456789", 28)[:300]

// c30Keys is the key pool. Every plan uses the first two and a random subset of
// the others below c30KeyEmpty; the empty key and the CR-LF key each trigger a
// known round-trip failure and enter a plan's pool only with a small
// probability, so that exploration continues past those findings.
var c30Keys = []string{"a", "b,c", "q\"uote", "new\nline", "ünï", "  sp ", c30LongKey, "it's \"both\"", "back\\slash", "zz", "", "cr\r\nlf"}

const (
	c30KeyEmpty = 10
	c30KeyCRLF  = 11
)

// probabilities with which a plan's key pool contains the empty key / the CR-LF key
const (
	c30PEmpty = 0.04
	c30PCRLF  = 0.05
)

var c30Rows = []int64{0, 1, 2, 7}

func genC30(r *simrt.Rand, tier string) *simrt.Plan {
	nodes := simrt.Pick(r, 1, 1, 2, 3)
	replicas := 1
	if nodes > 1 && r.Bool(0.4) {
		replicas = 2
	}
	idxKeys, fldKeys := r.Bool(0.5), r.Bool(0.5)
	knobs := map[string]int64{
		"nodes": int64(nodes), "replicas": int64(replicas), "pool": int64(simrt.Pick(r, 0, 1, 2, 8)),
		"idxkeys": b2i(idxKeys), "fldkeys": b2i(fldKeys),
		"cache": int64(r.Intn(3)), "cachesize": int64(simrt.Pick(r, 1, 3, 50000)),
		"bufsize": int64(simrt.Pick(r, 1, 2, 3, 7, 100000)), "sort": b2i(r.Bool(0.5)),
		"viafile": b2i(r.Bool(0.5)), "twinidx": b2i(r.Bool(0.3)), "exportfault": int64(simrt.Pick(r, 0, 0, 0, 1, 2, 3)),
		"othshard": int64(simrt.Pick(r, 0, 0, 3, 4)),
		"xnode":    int64(r.Intn(nodes)), "inode": int64(r.Intn(nodes)), "qnode": int64(r.Intn(nodes)),
	}
	// key pool of this plan
	pool := []int{}
	for i := 0; i < c30KeyEmpty; i++ {
		if i < 2 || r.Bool(0.6) {
			pool = append(pool, i)
		}
	}
	if r.Bool(c30PEmpty) {
		pool = append(pool, c30KeyEmpty)
	}
	if r.Bool(c30PCRLF) {
		pool = append(pool, c30KeyCRLF)
	}
	key := func() string { return c30Keys[pool[r.Intn(len(pool))]] }
	// column pool (unkeyed index): up to 3 shards, possibly leaving shard 1 without a fragment
	sw := int64(pilosa.ShardWidth)
	nsh := 1 + r.Intn(3)
	var cols []int64
	for s := int64(0); s < int64(nsh); s++ {
		if nsh == 3 && s == 1 && r.Bool(0.3) {
			continue
		}
		cols = append(cols, s*sw, s*sw+1, s*sw+65535, s*sw+65536, (s+1)*sw-1, s*sw+r.Int63n(sw))
	}
	n := 1 + r.Intn(40)
	var ops []simrt.Op
	type rc struct {
		row, col int64
		rk, ck   string
	}
	var written []rc
	for i := 0; i < n; i++ {
		b := rc{row: simrt.Pick(r, c30Rows...), col: cols[r.Intn(len(cols))], rk: key(), ck: key()}
		if len(written) > 0 && r.Bool(0.12) {
			// clear a bit written before
			w := written[r.Intn(len(written))]
			ops = append(ops, simrt.Op{K: "clear", I: []int64{w.row, w.col, int64(r.Intn(nodes)), b2i(r.Bool(0.3))}, S: []string{w.rk, w.ck}})
			continue
		}
		written = append(written, b)
		ops = append(ops, simrt.Op{K: "set", I: []int64{b.row, b.col, int64(r.Intn(nodes)), b2i(r.Bool(0.3))}, S: []string{b.rk, b.ck}})
	}
	ops = append(ops, simrt.Op{K: "roundtrip"})
	return &simrt.Plan{Knobs: knobs, Clients: [][]simrt.Op{ops}, Sched: dbSched(r)}
}

func b2i(b bool) int64 {
	if b {
		return 1
	}
	return 0
}

// ---- executor -----------------------------------------------------------------

type c30 struct {
	c        *simrt.Ctx
	cl       *simCluster
	idxKeys  bool
	fldKeys  bool
	srcIndex string
	dstIndex string
	model    map[string]map[string]bool // row ident -> column ident (key, or decimal id)
	rowsSeen map[string]bool
}

func (x *c30) keyed() bool { return x.idxKeys || x.fldKeys }

func (x *c30) rowIdent(op simrt.Op) string {
	if x.fldKeys {
		return op.S[0]
	}
	return strconv.FormatInt(op.I[0], 10)
}

func (x *c30) colIdent(op simrt.Op) string {
	if x.idxKeys {
		return op.S[1]
	}
	return strconv.FormatInt(op.I[1], 10)
}

// pqlColKey renders a column key as a PQL positional string (the grammar keeps
// the text between the quotes verbatim); ok=false if the key cannot be written.
// Query text is kept pure ASCII: the generated parser slices its byte buffer
// with rune offsets (pql.peg actions use buffer[begin:end], not text), so any
// multi-byte character shifts every later literal - PQL fidelity is C26's
// subject, not C30's, and such keys are written through ImportK instead.
func pqlColKey(k string) (string, bool) {
	if k == "" || strings.HasSuffix(k, "\\") {
		return "", false
	}
	for i := 0; i < len(k); i++ {
		if k[i] >= 0x80 {
			return "", false
		}
	}
	if !strings.Contains(k, "\"") {
		return "\"" + k + "\"", true
	}
	if !strings.Contains(k, "'") {
		return "'" + k + "'", true
	}
	return "", false
}

// pqlRowKey renders a row key as a PQL double-quoted value (unquoted by
// strconv.Unquote in the parser); the empty key means "no argument" to the
// executor and cannot be written.
func pqlRowKey(k string) (string, bool) {
	if k == "" {
		return "", false
	}
	return strconv.QuoteToASCII(k), true
}

func (x *c30) pqlCol(op simrt.Op) (string, bool) {
	if x.idxKeys {
		return pqlColKey(op.S[1])
	}
	return strconv.FormatInt(op.I[1], 10), true
}

func (x *c30) pqlRow(ident string) (string, bool) {
	if x.fldKeys {
		return pqlRowKey(ident)
	}
	return ident, true
}

// write applies a set or clear op to src and to the model.
func (x *c30) write(op simrt.Op) {
	clear := op.K == "clear"
	node := int(op.I[2]) % len(x.cl.nodes)
	if x.keyed() && len(x.cl.nodes) > 1 {
		node = 0 // unknown keys can only be created on the primary translate store
	}
	rid, cid := x.rowIdent(op), x.colIdent(op)
	col, okc := x.pqlCol(op)
	row, okr := x.pqlRow(rid)
	viaImport := op.I[3] != 0 || !okc || !okr
	var desc string
	if !viaImport {
		name := "Set"
		if clear {
			name = "Clear"
		}
		q := fmt.Sprintf("%s(%s, src=%s)", name, col, row)
		desc = fmt.Sprintf("%q on node %d", q, node)
		if _, err := x.cl.query(node, x.srcIndex, q); err != nil {
			x.c.Fail("write-error", "%s: %v", desc, err)
			return
		}
		x.c.Probe("write-pql")
	} else {
		bit := pilosa.Bit{}
		if x.fldKeys {
			bit.RowKey = op.S[0]
		} else {
			bit.RowID = uint64(op.I[0])
		}
		if x.idxKeys {
			bit.ColumnKey = op.S[1]
		} else {
			bit.ColumnID = uint64(op.I[1])
		}
		nd := x.cl.nodes[node]
		var err error
		if x.keyed() {
			bits := []pilosa.Bit{bit}
			if (x.fldKeys && bit.RowKey == "") || (x.idxKeys && bit.ColumnKey == "") {
				// http.Bits treats a batch whose row (column) keys are all empty as a
				// batch of ids, which the server rejects for a keyed field (index); an
				// empty key only reaches the translate store next to a non-empty one.
				pad := pilosa.Bit{RowID: 7, ColumnID: 0}
				padR, padC := "7", "0"
				if x.fldKeys {
					pad.RowKey, padR = "pad", "pad"
				}
				if x.idxKeys {
					pad.ColumnKey, padC = "pad", "pad"
				}
				bits = append(bits, pad)
				x.rowsSeen[padR] = true
				if clear {
					delete(x.model[padR], padC)
				} else {
					if x.model[padR] == nil {
						x.model[padR] = map[string]bool{}
					}
					x.model[padR][padC] = true
				}
				x.c.Probe("write-empty-key")
			}
			desc = fmt.Sprintf("ImportK(%+v clear=%v) via node %d", bits, clear, node)
			err = nd.ext.ImportK(context.Background(), x.srcIndex, "src", bits, pilosa.OptImportOptionsClear(clear))
		} else {
			desc = fmt.Sprintf("Import(%+v clear=%v) via node %d", bit, clear, node)
			err = nd.ext.Import(context.Background(), x.srcIndex, "src", bit.ColumnID/pilosa.ShardWidth, []pilosa.Bit{bit}, pilosa.OptImportOptionsClear(clear))
		}
		if err != nil {
			x.c.Fail("write-error", "%s: %v", desc, err)
			return
		}
		x.c.Probe("write-import")
	}
	x.rowsSeen[rid] = true
	if clear {
		delete(x.model[rid], cid)
		return
	}
	if x.model[rid] == nil {
		x.model[rid] = map[string]bool{}
	}
	x.model[rid][cid] = true
}

func (x *c30) modelRow(rid string) []string {
	out := []string{}
	for c := range x.model[rid] {
		out = append(out, c)
	}
	sort.Strings(out)
	return out
}

func (x *c30) modelBits() int {
	n := 0
	for _, m := range x.model {
		n += len(m)
	}
	return n
}

// readRow returns the sorted column identifiers of one row of index/field as seen from node.
func (x *c30) readRow(node int, index, field, rid string) ([]string, error) {
	lit, ok := x.pqlRow(rid)
	if !ok {
		return nil, errors.New("row key not expressible")
	}
	q := fmt.Sprintf("Row(%s=%s)", field, lit)
	res, err := x.cl.query(node, index, q)
	if err != nil {
		return nil, fmt.Errorf("%s on node %d: %v", q, node, err)
	}
	row, ok := res[0].(*pilosa.Row)
	if !ok {
		return nil, fmt.Errorf("%s on node %d returned %T", q, node, res[0])
	}
	out := []string{}
	if x.idxKeys {
		out = append(out, row.Keys...)
		if n := len(row.Columns()); n != 0 {
			return nil, fmt.Errorf("%s on node %d: keyed index answered with %d column ids", q, node, n)
		}
	} else {
		for _, c := range row.Columns() {
			out = append(out, strconv.FormatUint(c, 10))
		}
	}
	sort.Strings(out)
	return out, nil
}

// readRows lists the row identifiers of a field (Rows call).
func (x *c30) readRows(node int, index, field string) ([]string, error) {
	q := fmt.Sprintf("Rows(%s)", field)
	res, err := x.cl.query(node, index, q)
	if err != nil {
		return nil, fmt.Errorf("%s on node %d: %v", q, node, err)
	}
	ri, ok := rowIdents(res[0])
	if !ok {
		return nil, fmt.Errorf("%s on node %d returned %T", q, node, res[0])
	}
	out := []string{}
	if x.fldKeys {
		out = append(out, ri.Keys...)
	} else {
		for _, r := range ri.Rows {
			out = append(out, strconv.FormatUint(r, 10))
		}
	}
	sort.Strings(out)
	return out, nil
}

func c30Show(a []string) string {
	var parts []string
	for i, s := range a {
		if i == 12 {
			parts = append(parts, fmt.Sprintf("...(%d)", len(a)))
			break
		}
		if len(s) > 40 {
			s = s[:37] + "..."
		}
		parts = append(parts, strconv.Quote(s))
	}
	return "[" + strings.Join(parts, " ") + "]"
}

// onlyIn returns the elements of a that are not in b.
func onlyIn(a, b []string) []string {
	in := map[string]bool{}
	for _, s := range b {
		in[s] = true
	}
	out := []string{}
	for _, s := range a {
		if !in[s] {
			out = append(out, s)
		}
	}
	return out
}

func equalStrs(a, b []string) bool {
	if len(a) != len(b) {
		return false
	}
	for i := range a {
		if a[i] != b[i] {
			return false
		}
	}
	return true
}

func (x *c30) sortedRowsSeen() []string {
	var out []string
	for r := range x.rowsSeen {
		out = append(out, r)
	}
	sort.Strings(out)
	return out
}

// diffModel compares a field with the model through Row queries on node.
// It returns "" if equal, else a description; err for failed queries.
func (x *c30) diffModel(node int, index, field string) (string, error) {
	for _, rid := range x.sortedRowsSeen() {
		if _, ok := x.pqlRow(rid); !ok {
			continue
		}
		got, err := x.readRow(node, index, field, rid)
		if err != nil {
			return "", err
		}
		if want := x.modelRow(rid); !equalStrs(got, want) {
			return fmt.Sprintf("row %q of %s/%s on node %d = %s, model %s", rid, index, field, node, c30Show(got), c30Show(want)), nil
		}
	}
	return "", nil
}

func (x *c30) differClass() string {
	if x.keyed() {
		return "keys-differ"
	}
	return "bits-differ"
}

// c30Client builds the client the way ctl.commandClient does, except for the
// net/http client underneath: the simulated transport instead of http.GetHTTPClient's dialer.
func (x *c30) c30Client(host string) (*http.InternalClient, error) {
	return http.NewInternalClient(host, &gohttp.Client{Transport: x.cl.net.Transport("client")})
}

// runCtlExport is ctl.ExportCommand.Run with the client passed in.
func runCtlExport(ctx context.Context, cmd *ctl.ExportCommand, client *http.InternalClient) error {
	if cmd.Index == "" {
		return pilosa.ErrIndexRequired
	} else if cmd.Field == "" {
		return pilosa.ErrFieldRequired
	}
	var w io.Writer = cmd.Stdout
	if cmd.Path != "" {
		f, err := os.Create(cmd.Path)
		if err != nil {
			return fmt.Errorf("creating file: %v", err)
		}
		defer f.Close()
		w = f
	}
	maxShards, err := client.MaxShardByIndex(ctx)
	if err != nil {
		return fmt.Errorf("getting shard count: %v", err)
	}
	for shard := uint64(0); shard <= maxShards[cmd.Index]; shard++ {
		if err := client.ExportCSV(ctx, cmd.Index, cmd.Field, shard, w); err != nil {
			return fmt.Errorf("exporting shard %d: %v", shard, err)
		}
	}
	if w, ok := w.(io.Closer); ok {
		if err := w.Close(); err != nil {
			return fmt.Errorf("closing: %v", err)
		}
	}
	return nil
}

// runCtlImport is ctl.ImportCommand.Run (without CreateSchema) with the client
// passed in; parsing, batching and sending are done by the command's own importPath.
func runCtlImport(ctx context.Context, cmd *ctl.ImportCommand, client *http.InternalClient) error {
	if cmd.Index == "" {
		return pilosa.ErrIndexRequired
	} else if cmd.Field == "" {
		return pilosa.ErrFieldRequired
	} else if len(cmd.Paths) == 0 {
		return errors.New("path required")
	}
	f := reflect.ValueOf(cmd).Elem().FieldByName("client")
	if !f.IsValid() {
		return errors.New("harness: ctl.ImportCommand has no field named client")
	}
	reflect.NewAt(f.Type(), unsafe.Pointer(f.UnsafeAddr())).Elem().Set(reflect.ValueOf(client))
	fieldType := pilosa.DefaultFieldType
	schema, err := client.Schema(ctx)
	if err != nil {
		return fmt.Errorf("getting schema: %v", err)
	}
	var useColumnKeys, useRowKeys bool
	for _, index := range schema {
		if index.Name == cmd.Index {
			useColumnKeys = index.Options.Keys
			for _, field := range index.Fields {
				if field.Name == cmd.Field {
					useRowKeys = field.Options.Keys
					fieldType = field.Options.Type
					break
				}
			}
			break
		}
	}
	for _, path := range cmd.Paths {
		if err := ctlImportPath(cmd, ctx, fieldType, useColumnKeys, useRowKeys, path); err != nil {
			return err
		}
	}
	return nil
}

// export runs the export command for index/field and returns the CSV text.
func (x *c30) export(index, field string, viaFile bool, tag string) ([]byte, error) {
	host := x.cl.nodes[int(x.c.Plan.Knob("xnode", 0))%len(x.cl.nodes)].host
	client, err := x.c30Client(host)
	if err != nil {
		return nil, err
	}
	var out bytes.Buffer
	cmd := ctl.NewExportCommand(strings.NewReader(""), &out, io.Discard)
	cmd.Host, cmd.Index, cmd.Field = host, index, field
	if viaFile {
		cmd.Path = filepath.Join(x.c.Dir, "export-"+tag+".csv")
	}
	if err := runCtlExport(context.Background(), cmd, client); err != nil {
		return nil, err
	}
	if viaFile {
		return os.ReadFile(cmd.Path)
	}
	return out.Bytes(), nil
}

// parseExport parses export text with encoding/csv and returns "row\x00col" records.
func parseExport(text []byte) ([][2]string, error) {
	r := csv.NewReader(bytes.NewReader(text))
	r.FieldsPerRecord = -1
	var out [][2]string
	for n := 1; ; n++ {
		rec, err := r.Read()
		if err == io.EOF {
			return out, nil
		}
		if err != nil {
			return out, err
		}
		if len(rec) != 2 {
			return out, fmt.Errorf("record %d has %d fields: %q", n, len(rec), rec)
		}
		out = append(out, [2]string{rec[0], rec[1]})
	}
}

// parseVerbatim splits CSV text as written by encoding/csv.Writer (records end
// with "\n", fields are separated by ",", a field is quoted iff it starts with
// a double quote, "" inside quotes is a quote) WITHOUT normalising anything
// inside a field, so the exact key bytes the server emitted are recovered.
func parseVerbatim(text []byte) ([][]string, error) {
	var out [][]string
	i := 0
	for i < len(text) {
		var rec []string
		for {
			var f []byte
			if i < len(text) && text[i] == '"' {
				i++
				for {
					if i >= len(text) {
						return out, fmt.Errorf("record %d: unterminated quoted field", len(out)+1)
					}
					if text[i] == '"' {
						if i+1 < len(text) && text[i+1] == '"' {
							f = append(f, '"')
							i += 2
							continue
						}
						i++
						break
					}
					f = append(f, text[i])
					i++
				}
				if i < len(text) && text[i] != ',' && text[i] != '\n' {
					return out, fmt.Errorf("record %d: %q after closing quote", len(out)+1, text[i])
				}
			} else {
				for i < len(text) && text[i] != ',' && text[i] != '\n' {
					f = append(f, text[i])
					i++
				}
			}
			rec = append(rec, string(f))
			if i < len(text) && text[i] == ',' {
				i++
				continue
			}
			break
		}
		if i < len(text) && text[i] == '\n' {
			i++
		}
		out = append(out, rec)
	}
	return out, nil
}

func verbatimRecs(text []byte) ([][2]string, error) {
	recs, err := parseVerbatim(text)
	if err != nil {
		return nil, err
	}
	var out [][2]string
	for n, r := range recs {
		if len(r) != 2 {
			return out, fmt.Errorf("record %d has %d fields: %q", n+1, len(r), r)
		}
		out = append(out, [2]string{r[0], r[1]})
	}
	return out, nil
}

func sortedRecs(recs [][2]string) []string {
	out := make([]string, 0, len(recs))
	for _, r := range recs {
		out = append(out, r[0]+" | "+r[1])
	}
	sort.Strings(out)
	return out
}

func excerpt(b []byte) string {
	if len(b) > 400 {
		return strconv.Quote(string(b[:400])) + "..."
	}
	return strconv.Quote(string(b))
}

// replicasAgree exports every shard of index/field from every node that owns it
// (API.ExportCSV, in-process) and compares the owners' record sets.
func (x *c30) replicasAgree(index, field string) string {
	ctx := context.Background()
	max := x.cl.nodes[0].api.MaxShards(ctx)[index]
	for shard := uint64(0); shard <= max; shard++ {
		var first []string
		firstNode := -1
		for i, nd := range x.cl.nodes {
			var buf bytes.Buffer
			err := nd.api.ExportCSV(ctx, index, field, shard, &buf)
			if err == pilosa.ErrClusterDoesNotOwnShard {
				continue
			}
			if err != nil && err != pilosa.ErrFragmentNotFound {
				return fmt.Sprintf("ExportCSV(%s/%s shard %d) on node %d: %v", index, field, shard, i, err)
			}
			recs, err := verbatimRecs(buf.Bytes())
			if err != nil {
				return fmt.Sprintf("ExportCSV(%s/%s shard %d) on node %d does not parse: %v", index, field, shard, i, err)
			}
			got := sortedRecs(recs)
			if firstNode < 0 {
				first, firstNode = got, i
				continue
			}
			x.c.Probe("replica-pairs-compared")
			if !equalStrs(first, got) {
				return fmt.Sprintf("replicas of %s/%s shard %d differ after import: node %d %s, node %d %s", index, field, shard, firstNode, c30Show(first), i, c30Show(got))
			}
		}
	}
	return ""
}

func (x *c30) roundtrip() {
	c := x.c
	many := len(x.cl.nodes) > 1
	qnode := int(c.Plan.Knob("qnode", 0)) % len(x.cl.nodes)
	if x.keyed() {
		qnode = 0
	}
	// 1. src equals the model; on a keyed multi-node cluster wait (simulated time)
	// until every node's translate replica can answer, so that the export is not
	// judged while key replication is still in flight.
	nodesToCheck := []int{qnode}
	if many && x.keyed() {
		nodesToCheck = nil
		for i := range x.cl.nodes {
			nodesToCheck = append(nodesToCheck, i)
		}
	}
	for _, nd := range nodesToCheck {
		var diff string
		var err error
		for try := 0; try < 20; try++ {
			diff, err = x.diffModel(nd, x.srcIndex, "src")
			if err == nil && diff == "" {
				break
			}
			if nd == 0 || !x.keyed() {
				break
			}
			c.Probe("wait-key-replication")
			simrt.Sleep(500 * time.Millisecond)
		}
		if err != nil {
			c.Fail("query-error", "reading src before export: %v", err)
			return
		}
		if diff != "" {
			c.Fail(x.differClass(), "src differs from the model before export: %s", diff)
			return
		}
	}
	// 2. export src
	viaFile := c.Plan.Knob("viafile", 0) != 0
	// a node that fails one of the export's shard requests: the export may fail over to another
	// owner or fail as a whole, it may not succeed with that shard missing
	var exportFault *simrt.NetFault
	if k := c.Plan.Knob("exportfault", 0); k > 0 {
		exportFault = &simrt.NetFault{Kind: "lose-request", Class: "export", N: int(k)}
		x.cl.net.AddFault(exportFault)
	}
	text, err := x.export(x.srcIndex, "src", viaFile, "src")
	if exportFault != nil {
		x.cl.net.ClearFaults()
		if exportFault.Fired > 0 {
			c.Probe("fault:export-request-lost")
			if err != nil {
				c.Probe("export-failed-under-fault")
				return
			}
		}
	}
	if err != nil {
		c.Fail("export-error", "export of %s/src: %v", x.srcIndex, err)
		return
	}
	c.Logf("C30 export %d bytes", len(text))
	recs, err := parseExport(text)
	if err != nil {
		c.Fail("csv-malformed", "export text does not parse as CSV: %v; text %s", err, excerpt(text))
		return
	}
	if len(recs) != x.modelBits() {
		c.Fail("csv-malformed", "export has %d records for %d bits; text %s", len(recs), x.modelBits(), excerpt(text))
		return
	}
	var want [][2]string
	for rid, m := range x.model {
		for cid := range m {
			want = append(want, [2]string{rid, cid})
		}
	}
	// the exact bytes of every exported identifier equal the model's
	vrecs, err := verbatimRecs(text)
	if err != nil {
		c.Fail("csv-malformed", "export text: %v; text %s", err, excerpt(text))
		return
	}
	if got, w := sortedRecs(vrecs), sortedRecs(want); !equalStrs(got, w) {
		c.Fail(x.differClass(), "export records differ from the model: got %s want %s; text %s", c30Show(got), c30Show(w), excerpt(text))
		return
	}
	if got, w := sortedRecs(recs), sortedRecs(want); !equalStrs(got, w) {
		c.Probe("export-read-differently-by-encoding/csv")
	}
	c.ProbeN("exported-bits", len(recs))
	// 3. import into the empty twin
	host := x.cl.nodes[int(c.Plan.Knob("inode", 0))%len(x.cl.nodes)].host
	client, err := x.c30Client(host)
	if err != nil {
		c.Fail("import-error", "client: %v", err)
		return
	}
	icmd := ctl.NewImportCommand(bytes.NewReader(text), io.Discard, io.Discard)
	icmd.Host, icmd.Index, icmd.Field = host, x.dstIndex, "dst"
	icmd.BufferSize = int(c.Plan.Knob("bufsize", 100000))
	icmd.Sort = c.Plan.Knob("sort", 0) != 0
	icmd.Paths = []string{"-"}
	if viaFile {
		icmd.Paths = []string{filepath.Join(c.Dir, "export-src.csv")}
	}
	if err := runCtlImport(context.Background(), icmd, client); err != nil {
		if strings.HasPrefix(err.Error(), "harness:") {
			c.Inconclusive(err.Error())
			return
		}
		c.Fail("import-error", "import into %s/dst: %v; text %s", x.dstIndex, err, excerpt(text))
		return
	}
	// 4. dst == src == model
	for _, rid := range x.sortedRowsSeen() {
		if _, ok := x.pqlRow(rid); !ok {
			continue
		}
		d, err := x.readRow(qnode, x.dstIndex, "dst", rid)
		if err != nil {
			c.Fail("query-error", "%v", err)
			return
		}
		s, err := x.readRow(qnode, x.srcIndex, "src", rid)
		if err != nil {
			c.Fail("query-error", "%v", err)
			return
		}
		if m := x.modelRow(rid); !equalStrs(d, s) || !equalStrs(d, m) {
			ref, refName := s, "src"
			if equalStrs(d, s) {
				ref, refName = m, "model"
			}
			od, or := onlyIn(d, ref), onlyIn(ref, d)
			c.Fail(x.differClass(), "after import row %q: only in dst %s, only in %s %s (dst %d, src %d, model %d columns); export text %s",
				rid, c30Show(od), refName, c30Show(or), len(d), len(s), len(m), excerpt(text))
			return
		}
		c.Probe("rows-compared")
	}
	dr, err := x.readRows(qnode, x.dstIndex, "dst")
	if err != nil {
		c.Fail("query-error", "%v", err)
		return
	}
	var mr []string
	for rid, m := range x.model {
		if len(m) > 0 {
			mr = append(mr, rid)
		}
	}
	sort.Strings(mr)
	if !equalStrs(dr, mr) {
		sr, _ := x.readRows(qnode, x.srcIndex, "src")
		c.Fail(x.differClass(), "after import Rows(dst) lacks %s and has extra %s; Rows(src) = %s, model rows %s; export text %s",
			c30Show(onlyIn(mr, dr)), c30Show(onlyIn(dr, mr)), c30Show(sr), c30Show(mr), excerpt(text))
		return
	}
	// 5. exporting dst gives the same records (covers rows that PQL cannot name)
	if many && x.keyed() {
		// dst's row keys are new entries of the primary's translate log
		for _, nd := range nodesToCheck {
			for try := 0; try < 20; try++ {
				diff, err := x.diffModel(nd, x.dstIndex, "dst")
				if (err == nil && diff == "") || nd == 0 {
					break
				}
				simrt.Sleep(500 * time.Millisecond)
			}
		}
	}
	text2, err := x.export(x.dstIndex, "dst", false, "dst")
	if err != nil {
		c.Fail("export-error", "export of %s/dst: %v", x.dstIndex, err)
		return
	}
	recs2, err := verbatimRecs(text2)
	if err != nil {
		c.Fail("csv-malformed", "export text of dst: %v; text %s", err, excerpt(text2))
		return
	}
	if a, b := sortedRecs(recs2), sortedRecs(vrecs); !equalStrs(a, b) {
		c.Fail(x.differClass(), "export of dst differs from export of src: only in dst %s, only in src %s", c30Show(onlyIn(a, b)), c30Show(onlyIn(b, a)))
		return
	}
	// 6. every owner of every shard of dst holds the same bits (the import
	// commands replicate from the client side / the coordinator)
	if msg := x.replicasAgree(x.dstIndex, "dst"); msg != "" {
		c.Fail(x.differClass(), "%s", msg)
		return
	}
	for k, v := range x.cl.net.RPCCounts() {
		switch k {
		case "rpc:export", "rpc:import", "rpc:shards-max", "rpc:fragment-nodes":
			c.ProbeN(k, v)
		}
	}
	c.Probe("roundtrips-checked")
	if x.idxKeys {
		c.Probe("roundtrip-column-keys")
	}
	if x.fldKeys {
		c.Probe("roundtrip-row-keys")
	}
}

func execC30(c *simrt.Ctx) {
	mrand.Seed(c.Plan.Seed) // InternalClient.ExportCSV picks a replica with the global math/rand
	x := &c30{c: c, model: map[string]map[string]bool{}, rowsSeen: map[string]bool{},
		idxKeys: c.Plan.Knob("idxkeys", 0) != 0, fldKeys: c.Plan.Knob("fldkeys", 0) != 0, srcIndex: "i", dstIndex: "i"}
	if c.Plan.Knob("twinidx", 0) != 0 {
		x.dstIndex = "j"
	}
	c.State = x
	c.S.SetEager(true)
	c.Do("setup", func() {
		cl := newSimCluster(c, int(c.Plan.Knob("nodes", 1)), int(c.Plan.Knob("replicas", 1)))
		cl.poolSize = int(c.Plan.Knob("pool", 0))
		x.cl = cl
		if err := cl.start(); err != nil {
			c.Fail("start", "%v", err)
			return
		}
		if !cl.awaitState(pilosa.ClusterStateNormal, 30*time.Second) {
			c.Inconclusive("cluster-not-normal")
			return
		}
		ctx := context.Background()
		api := cl.nodes[0].api
		names := []string{x.srcIndex}
		if x.dstIndex != x.srcIndex {
			names = append(names, x.dstIndex)
		}
		for _, name := range names {
			if _, err := api.CreateIndex(ctx, name, pilosa.IndexOptions{Keys: x.idxKeys, TrackExistence: true}); err != nil {
				c.Fail("schema-error", "CreateIndex(%s): %v", name, err)
				return
			}
		}
		fopts := func() []pilosa.FieldOption {
			o := []pilosa.FieldOption{pilosa.OptFieldTypeSet(cacheTypeName(c.Plan.Knob("cache", 0)), uint32(c.Plan.Knob("cachesize", 50000)))}
			if x.fldKeys {
				o = append(o, pilosa.OptFieldKeys())
			}
			return o
		}
		if _, err := api.CreateField(ctx, x.srcIndex, "src", fopts()...); err != nil {
			c.Fail("schema-error", "CreateField(src): %v", err)
			return
		}
		if _, err := api.CreateField(ctx, x.dstIndex, "dst", fopts()...); err != nil {
			c.Fail("schema-error", "CreateField(dst): %v", err)
			return
		}
		// an unrelated field with a bit in a higher shard, so that the export loop
		// (0..max shard of the INDEX) runs past the last fragment of src
		if sh := c.Plan.Knob("othshard", 0); sh > 0 && !x.idxKeys {
			if _, err := api.CreateField(ctx, x.srcIndex, "oth"); err != nil {
				c.Fail("schema-error", "CreateField(oth): %v", err)
				return
			}
			if _, err := cl.query(0, x.srcIndex, fmt.Sprintf("Set(%d, oth=1)", uint64(sh)*pilosa.ShardWidth+3)); err != nil {
				c.Fail("write-error", "Set on oth: %v", err)
				return
			}
		}
	})
	if c.Stopped() {
		c.S.SetEager(true)
		c.Do("teardown", func() { x.cl.closeAll() })
		return
	}
	c.S.SetEager(c.Plan.Knob("eager", 0) != 0)
	c.Do("c0", func() {
		for _, op := range c.Plan.Clients[0] {
			if c.Stopped() {
				return
			}
			switch op.K {
			case "set", "clear":
				x.write(op)
			case "roundtrip":
				x.roundtrip()
			default:
				panic("C30: unknown op " + op.K)
			}
			c.OpDone()
		}
	})
	c.S.SetEager(true)
	c.Do("teardown", func() { x.cl.closeAll() })
}
