package pilosa_test

// C23: data and schema requests are refused while the cluster is not serving.
// A catalogue of API entry points is fired at nodes while the cluster moves
// through NORMAL, RESIZING, STARTING and DEGRADED (states reached through the
// real message paths, never assigned). Each call is judged against the state the
// node was in for the whole call.

import (
	"bytes"
	"context"
	"fmt"
	"sort"
	"strings"
	"time"

	"github.com/pilosa/pilosa"
	"github.com/pilosa/pilosa/encoding/proto"
	"github.com/pilosa/pilosa/roaring"
	"verif/simrt"
)

func init() {
	simrt.Register(&simrt.Prop{ID: "C23", Gen: genC23, Exec: execDBOpt(dbOpts{extra: c23Extra, prepare: c23Prepare})})
}

const (
	gkCommon = iota
	gkResizing
	gkNormal
)

type gateCall struct {
	name  string
	class int
	// run performs the call on nd; uniq is a number unique to this call. It returns the
	// call's error and a description of what the call would have created (for the final check).
	run func(g *gateState, nd *simNode, uniq int) (error, *gateEffect)
}

// gateEffect is the footprint of a mutating call.
type gateEffect struct {
	kind  string // "bit", "val", "index", "field", "rmindex", "rmfield"
	row   uint64
	col   uint64
	name  string
	local string // node id when the effect is local to one node (ApplySchema remote=true)
}

type gateRecord struct {
	eff     *gateEffect
	outcome string // "must" (admitted in stable NORMAL, no error), "maybe", "refused"
	what    string
}

type gateState struct {
	d       *db
	ready   bool
	n       int
	fsOps   map[string]int // FS operations per task key
	records []gateRecord
	idx     []string // scratch indexes known to exist (created with outcome must)
	flds    []string // scratch fields of zz known to exist
	down    map[string]bool
}

func c23Prepare(d *db) {
	rzPrepare(d)
	g := &gateState{d: d, fsOps: map[string]int{}, down: map[string]bool{}}
	d.rz().gate = g
	d.c.S.FSHook = func(op, path string) error {
		g.fsOps[simrt.TaskKey()]++
		return nil
	}
}

func (g *gateState) fsOpsOf(prefix string) int {
	n := 0
	for k, v := range g.fsOps {
		if k == prefix || strings.HasPrefix(k, prefix+"/") {
			n += v
		}
	}
	return n
}

var ctxBG = context.Background()

func gateCatalogue() []gateCall {
	own := func(nd *simNode, index string) uint64 {
		for s := uint64(0); s < 16; s++ {
			if pilosa.VOwnsShard(nd.srv, index, s) {
				return s
			}
		}
		return 0
	}
	return []gateCall{
		{"ClusterMessage", gkCommon, func(g *gateState, nd *simNode, u int) (error, *gateEffect) {
			return g.d.cl.deliver(nd, &pilosa.RecalculateCaches{}), nil
		}},
		{"SetCoordinator", gkCommon, func(g *gateState, nd *simNode, u int) (error, *gateEffect) {
			_, _, err := nd.api.SetCoordinator(ctxBG, g.d.cl.coordinator().id)
			return err, nil
		}},
		{"FragmentData", gkResizing, func(g *gateState, nd *simNode, u int) (error, *gateEffect) {
			_, err := nd.api.FragmentData(ctxBG, "zz", "f", "standard", 0)
			return err, nil
		}},
		{"ResizeAbort", gkResizing, func(g *gateState, nd *simNode, u int) (error, *gateEffect) {
			return nd.api.ResizeAbort(), nil
		}},
		{"Query(read)", gkNormal, func(g *gateState, nd *simNode, u int) (error, *gateEffect) {
			_, err := nd.api.Query(ctxBG, &pilosa.QueryRequest{Index: "zz", Query: "Count(Row(f=1))"})
			return err, nil
		}},
		{"Query(write)", gkNormal, func(g *gateState, nd *simNode, u int) (error, *gateEffect) {
			e := &gateEffect{kind: "bit", row: 5, col: uint64(u)*3 + uint64(u%4)*pilosa.ShardWidth}
			_, err := nd.api.Query(ctxBG, &pilosa.QueryRequest{Index: "zz", Query: fmt.Sprintf("Set(%d, f=%d)", e.col, e.row)})
			return err, e
		}},
		{"CreateIndex", gkNormal, func(g *gateState, nd *simNode, u int) (error, *gateEffect) {
			e := &gateEffect{kind: "index", name: fmt.Sprintf("zq%d", u)}
			_, err := nd.api.CreateIndex(ctxBG, e.name, pilosa.IndexOptions{})
			return err, e
		}},
		{"DeleteIndex", gkNormal, func(g *gateState, nd *simNode, u int) (error, *gateEffect) {
			name := "zq-none"
			if len(g.idx) > 0 {
				name = g.idx[u%len(g.idx)]
			}
			return nd.api.DeleteIndex(ctxBG, name), &gateEffect{kind: "rmindex", name: name}
		}},
		{"CreateField", gkNormal, func(g *gateState, nd *simNode, u int) (error, *gateEffect) {
			e := &gateEffect{kind: "field", name: fmt.Sprintf("g%d", u)}
			_, err := nd.api.CreateField(ctxBG, "zz", e.name, pilosa.OptFieldTypeSet(pilosa.CacheTypeRanked, 100))
			return err, e
		}},
		{"DeleteField", gkNormal, func(g *gateState, nd *simNode, u int) (error, *gateEffect) {
			name := "g-none"
			if len(g.flds) > 0 {
				name = g.flds[u%len(g.flds)]
			}
			return nd.api.DeleteField(ctxBG, "zz", name), &gateEffect{kind: "rmfield", name: name}
		}},
		{"Index", gkNormal, func(g *gateState, nd *simNode, u int) (error, *gateEffect) {
			_, err := nd.api.Index(ctxBG, "zz")
			return err, nil
		}},
		{"Field", gkNormal, func(g *gateState, nd *simNode, u int) (error, *gateEffect) {
			_, err := nd.api.Field(ctxBG, "zz", "f")
			return err, nil
		}},
		{"Views", gkNormal, func(g *gateState, nd *simNode, u int) (error, *gateEffect) {
			_, err := nd.api.Views(ctxBG, "zz", "f")
			return err, nil
		}},
		{"DeleteView", gkNormal, func(g *gateState, nd *simNode, u int) (error, *gateEffect) {
			return nd.api.DeleteView(ctxBG, "zz", "f", "standard_1999"), nil
		}},
		{"ApplySchema", gkNormal, func(g *gateState, nd *simNode, u int) (error, *gateEffect) {
			e := &gateEffect{kind: "index", name: fmt.Sprintf("zs%d", u), local: nd.id}
			err := nd.api.ApplySchema(ctxBG, &pilosa.Schema{Indexes: []*pilosa.IndexInfo{{Name: e.name}}}, true)
			return err, e
		}},
		{"Import", gkNormal, func(g *gateState, nd *simNode, u int) (error, *gateEffect) {
			sh := own(nd, "zz")
			e := &gateEffect{kind: "bit", row: 6, col: sh*pilosa.ShardWidth + uint64(u)}
			err := nd.api.Import(ctxBG, &pilosa.ImportRequest{Index: "zz", Field: "f", Shard: sh, RowIDs: []uint64{e.row}, ColumnIDs: []uint64{e.col}})
			return err, e
		}},
		{"Import(keys)", gkNormal, func(g *gateState, nd *simNode, u int) (error, *gateEffect) {
			// a keyed index and field: the keys must not be translated (written to the key
			// store) for a request that is going to be refused
			err := nd.api.Import(ctxBG, &pilosa.ImportRequest{Index: "zk", Field: "kf", Shard: 0,
				RowKeys: []string{fmt.Sprintf("row-%d", u)}, ColumnKeys: []string{fmt.Sprintf("col-%d", u)}})
			return err, nil
		}},
		{"ImportValue", gkNormal, func(g *gateState, nd *simNode, u int) (error, *gateEffect) {
			sh := own(nd, "zz")
			e := &gateEffect{kind: "val", col: sh*pilosa.ShardWidth + uint64(u)}
			err := nd.api.ImportValue(ctxBG, &pilosa.ImportValueRequest{Index: "zz", Field: "v", Shard: sh, ColumnIDs: []uint64{e.col}, Values: []int64{7}})
			return err, e
		}},
		{"ImportRoaring", gkNormal, func(g *gateState, nd *simNode, u int) (error, *gateEffect) {
			sh := own(nd, "zz")
			e := &gateEffect{kind: "bit", row: 7, col: sh*pilosa.ShardWidth + uint64(u)}
			var buf bytes.Buffer
			roaring.NewBitmap(e.row*pilosa.ShardWidth + uint64(u)).WriteTo(&buf)
			err := nd.api.ImportRoaring(ctxBG, "zz", "f", sh, false, &pilosa.ImportRoaringRequest{Views: map[string][]byte{"": buf.Bytes()}})
			return err, e
		}},
		{"ExportCSV", gkNormal, func(g *gateState, nd *simNode, u int) (error, *gateEffect) {
			var buf bytes.Buffer
			return nd.api.ExportCSV(ctxBG, "zz", "f", own(nd, "zz"), &buf), nil
		}},
		{"FragmentBlocks", gkNormal, func(g *gateState, nd *simNode, u int) (error, *gateEffect) {
			_, err := nd.api.FragmentBlocks(ctxBG, "zz", "f", "standard", own(nd, "zz"))
			return err, nil
		}},
		{"FragmentBlockData", gkNormal, func(g *gateState, nd *simNode, u int) (error, *gateEffect) {
			body, _ := proto.Serializer{}.Marshal(&pilosa.BlockDataRequest{Index: "zz", Field: "f", View: "standard", Shard: own(nd, "zz"), Block: 0})
			_, err := nd.api.FragmentBlockData(ctxBG, bytes.NewReader(body))
			return err, nil
		}},
		{"IndexAttrDiff", gkNormal, func(g *gateState, nd *simNode, u int) (error, *gateEffect) {
			_, err := nd.api.IndexAttrDiff(ctxBG, "zz", nil)
			return err, nil
		}},
		{"FieldAttrDiff", gkNormal, func(g *gateState, nd *simNode, u int) (error, *gateEffect) {
			_, err := nd.api.FieldAttrDiff(ctxBG, "zz", "f", nil)
			return err, nil
		}},
		{"RecalculateCaches", gkNormal, func(g *gateState, nd *simNode, u int) (error, *gateEffect) {
			return nd.api.RecalculateCaches(ctxBG), nil
		}},
		{"DeleteAvailableShard", gkNormal, func(g *gateState, nd *simNode, u int) (error, *gateEffect) {
			return nd.api.DeleteAvailableShard(ctxBG, "zz", "f", 99), nil
		}},
		{"ShardNodes", gkNormal, func(g *gateState, nd *simNode, u int) (error, *gateEffect) {
			_, err := nd.api.ShardNodes(ctxBG, "zz", 0)
			return err, nil
		}},
		{"RemoveNode", gkNormal, func(g *gateState, nd *simNode, u int) (error, *gateEffect) {
			_, err := nd.api.RemoveNode("no-such-node")
			return err, nil
		}},
	}
}

var gateCalls = gateCatalogue()

// fire runs one catalogue call on a node and judges it.
func (g *gateState) fire(kind, nodeSel int) {
	d := g.d
	if !g.ready {
		return
	}
	var cands []*simNode
	for _, nd := range d.cl.nodes {
		if nd.opened && !nd.gone && !g.down[nd.id] {
			cands = append(cands, nd)
		}
	}
	if len(cands) == 0 {
		return
	}
	nd := cands[nodeSel%len(cands)]
	call := gateCalls[kind%len(gateCalls)]
	g.n++
	u := g.n
	me := simrt.TaskKey()
	s0, q0 := pilosa.VCluster(nd.srv).State, nd.stateSeq
	f0 := g.fsOpsOf(me)
	err, eff := call.run(g, nd, u)
	f1 := g.fsOpsOf(me)
	s1, q1 := pilosa.VCluster(nd.srv).State, nd.stateSeq
	refused := pilosa.VIsNotAllowed(err)
	stable := s0 == s1 && q0 == q1
	d.c.Logf("gate %s on %s state %s->%s stable=%v refused=%v err=%v", call.name, nd.id, s0, s1, stable, refused, err)
	outcome := "maybe"
	if refused {
		outcome = "refused"
	}
	if stable {
		var want bool // admitted?
		judged := true
		switch call.class {
		case gkCommon:
			want = true
		case gkResizing:
			want = s0 == pilosa.ClusterStateResizing
			judged = s0 == pilosa.ClusterStateResizing // outside RESIZING the property says nothing about them
		case gkNormal:
			want = s0 == pilosa.ClusterStateNormal || s0 == pilosa.ClusterStateDegraded
		}
		if judged && want && refused {
			d.fail("gate-refused", "%s on %s was refused although the cluster state was %s throughout the call: %v", call.name, nd.id, s0, err)
			return
		}
		if judged && !want && !refused {
			d.fail("gate-admitted", "%s on %s was admitted although the cluster state was %s throughout the call (error: %v)", call.name, nd.id, s0, err)
			return
		}
		if judged {
			d.c.Probe("gate:" + s0 + ":" + map[bool]string{true: "admitted", false: "refused"}[!refused])
		}
		if !refused && err == nil && s0 == pilosa.ClusterStateNormal {
			outcome = "must"
			// API.Import and API.ImportValue write the local replica only (the client
			// sends the request to every owner), so other replicas need not see it
			if eff != nil && eff.kind == "val" {
				// after a resize the new owner answers int predicates with the bit depth of the
				// schema it was sent, not of the data it copied (see DESIGN.md, observations)
				outcome = "maybe"
			}
			if eff != nil && eff.local != "" {
				outcome = "maybe" // ApplySchema(remote) changes one node only; later schema exchanges are free to differ
			}
			if (call.name == "Import" || call.name == "ImportValue") && d.cl.replicas > 1 {
				outcome = "maybe"
			}
		}
	} else {
		d.c.Probe("gate:raced-with-state-change")
	}
	if refused && f1 != f0 {
		d.fail("gate-touched-data", "%s on %s was refused (%v) after %d file-system operations by the request", call.name, nd.id, err, f1-f0)
		return
	}
	if eff != nil {
		g.records = append(g.records, gateRecord{eff: eff, outcome: outcome, what: fmt.Sprintf("%s on %s in %s", call.name, nd.id, s0)})
		if outcome == "must" && eff.local == "" {
			switch eff.kind {
			case "index":
				g.idx = append(g.idx, eff.name)
			case "field":
				g.flds = append(g.flds, eff.name)
			}
		}
		if !refused {
			switch eff.kind {
			case "rmindex":
				g.idx = without(g.idx, eff.name)
			case "rmfield":
				g.flds = without(g.flds, eff.name)
			}
		}
	}
}

func without(a []string, s string) []string {
	var out []string
	for _, x := range a {
		if x != s {
			out = append(out, x)
		}
	}
	return out
}

// finalCheck: nothing a refused call asked for exists anywhere, everything a call
// admitted in a stable NORMAL state did is visible on every node.
func (g *gateState) finalCheck() {
	d := g.d
	removedIdx, removedFld := map[string]bool{}, map[string]bool{}
	for _, r := range g.records {
		d.c.Logf("gate record: %s -> %s %s outcome=%s", r.what, r.eff.kind, r.eff.name, r.outcome)
		if r.outcome != "refused" {
			if r.eff.kind == "rmindex" {
				removedIdx[r.eff.name] = true
			}
			if r.eff.kind == "rmfield" {
				removedFld[r.eff.name] = true
			}
		}
	}
	for _, nd := range d.openNodes() {
		schema := map[string]map[string]bool{}
		for _, ii := range nd.api.Schema(ctxBG) {
			schema[ii.Name] = map[string]bool{}
			for _, f := range ii.Fields {
				schema[ii.Name][f.Name] = true
			}
		}
		rows := map[uint64]map[uint64]bool{}
		for _, r := range []uint64{5, 6, 7} {
			resp, err := nd.api.Query(ctxBG, &pilosa.QueryRequest{Index: "zz", Query: fmt.Sprintf("Row(f=%d)", r)})
			if err != nil {
				d.fail("gate-final", "Row(f=%d) on %s: %v", r, nd.id, err)
				return
			}
			rows[r] = map[uint64]bool{}
			for _, c := range resp.Results[0].(*pilosa.Row).Columns() {
				rows[r][c] = true
			}
		}
		for _, r := range g.records {
			e := r.eff
			if e.local != "" && e.local != nd.id {
				continue
			}
			var present, known bool
			switch e.kind {
			case "bit":
				present, known = rows[e.row][e.col], true
			case "index":
				_, present = schema[e.name]
				known = !removedIdx[e.name]
			case "field":
				present = schema["zz"][e.name]
				known = !removedFld[e.name]
			case "rmindex":
				if r.outcome == "refused" && !removedIdx[e.name] && e.name != "zq-none" {
					if _, ok := schema[e.name]; !ok {
						d.fail("gate-touched-data", "%s was refused but index %s is gone on %s", r.what, e.name, nd.id)
						return
					}
				}
				continue
			case "rmfield":
				if r.outcome == "refused" && !removedFld[e.name] && e.name != "g-none" {
					if !schema["zz"][e.name] {
						d.fail("gate-touched-data", "%s was refused but field zz/%s is gone on %s", r.what, e.name, nd.id)
						return
					}
				}
				continue
			case "val":
				resp, err := nd.api.Query(ctxBG, &pilosa.QueryRequest{Index: "zz", Query: fmt.Sprintf("Row(v == 7)")})
				if err != nil {
					d.fail("gate-final", "Row(v==7) on %s: %v", nd.id, err)
					return
				}
				for _, c := range resp.Results[0].(*pilosa.Row).Columns() {
					if c == e.col {
						present = true
					}
				}
				known = true
			}
			if !known {
				continue
			}
			if r.outcome == "refused" && present {
				d.fail("gate-touched-data", "%s was refused, yet its effect (%s %s row %d col %d) is visible on %s", r.what, e.kind, e.name, e.row, e.col, nd.id)
				return
			}
			if r.outcome == "must" && !present {
				d.fail("gate-lost-write", "%s succeeded in state NORMAL, yet its effect (%s %s row %d col %d) is not visible on %s", r.what, e.kind, e.name, e.row, e.col, nd.id)
				return
			}
		}
	}
	d.c.ProbeN("gate-effects-checked", len(g.records))
}

func c23Extra(d *db, op simrt.Op) bool {
	st := d.rz()
	g := st.gate
	I := op.I
	coord := d.cl.coordinator()
	switch op.K {
	case "gatesetup":
		if _, err := coord.api.CreateIndex(ctxBG, "zz", pilosa.IndexOptions{}); err != nil {
			d.fail("schema-error", "create zz: %v", err)
			return true
		}
		if _, err := coord.api.CreateField(ctxBG, "zz", "f", pilosa.OptFieldTypeSet(pilosa.CacheTypeRanked, 100)); err != nil {
			d.fail("schema-error", "create zz/f: %v", err)
			return true
		}
		if _, err := coord.api.CreateField(ctxBG, "zz", "v", pilosa.OptFieldTypeInt(0, 1000)); err != nil {
			d.fail("schema-error", "create zz/v: %v", err)
			return true
		}
		if _, err := coord.api.CreateIndex(ctxBG, "zk", pilosa.IndexOptions{Keys: true}); err != nil {
			d.fail("schema-error", "create zk: %v", err)
			return true
		}
		if _, err := coord.api.CreateField(ctxBG, "zk", "kf", pilosa.OptFieldTypeSet(pilosa.CacheTypeRanked, 100), pilosa.OptFieldKeys()); err != nil {
			d.fail("schema-error", "create zk/kf: %v", err)
			return true
		}
		for s := uint64(0); s < 4; s++ {
			if _, err := coord.api.Query(ctxBG, &pilosa.QueryRequest{Index: "zz", Query: fmt.Sprintf("Set(%d, f=1)", s*pilosa.ShardWidth+1)}); err != nil {
				d.fail("write-error", "seed zz: %v", err)
				return true
			}
		}
		g.ready = true
	case "gate": // I=[kind,node]
		g.fire(int(I[0]), int(I[1]))
	case "gatewait": // client>0: wait for setup
		for i := 0; i < 3000 && !g.ready && !d.c.Stopped(); i++ {
			simrt.Sleep(50 * time.Millisecond)
		}
	case "nap": // I=[ms]
		simrt.Sleep(time.Duration(I[0]) * time.Millisecond)
	case "reportdown": // I=[node]: node k tells the coordinator it is DOWN (as a restarting node does)
		nd := g.pick(int(I[0]))
		if nd == nil {
			return true
		}
		d.cl.deliver(coord, &pilosa.NodeStateMessage{NodeID: nd.id, State: "DOWN"})
		d.c.Probe("state-change:report-down")
	case "reportready":
		for _, nd := range d.openNodes() {
			d.cl.deliver(coord, &pilosa.NodeStateMessage{NodeID: nd.id, State: "READY"})
		}
	case "leave": // I=[node]: the node becomes unreachable and gossip reports it gone
		nd := g.pick(int(I[0]))
		if nd == nil || len(g.down) > 0 {
			return true
		}
		g.down[nd.id] = true
		d.cl.net.SetDown(nd.host, true)
		if err := d.cl.deliverLeave(coord, nd); err != nil {
			d.c.Logf("leave: %v", err)
		}
		d.c.Probe("state-change:leave")
	case "back":
		ids := simrt.SortedKeys(g.down)
		for _, id := range ids {
			for _, nd := range d.cl.nodes {
				if nd.id == id {
					d.cl.net.SetDown(nd.host, false)
					if err := d.cl.deliverJoin(coord, nd); err != nil {
						d.c.Logf("back: %v", err)
					}
				}
			}
			delete(g.down, id)
		}
	case "gatesettle": // I=[seconds]: everything back to NORMAL
		d.cl.net.ClearFaults()
		c23Extra(d, simrt.Op{K: "back"})
		c23Extra(d, simrt.Op{K: "reportready"})
		if st.unsettled {
			d.settle(I[0])
		}
		deadline := time.Now().Add(time.Duration(I[0]) * time.Second)
		for {
			ok := true
			for _, nd := range d.openNodes() {
				if pilosa.VCluster(nd.srv).State != pilosa.ClusterStateNormal {
					ok = false
				}
			}
			if ok {
				break
			}
			if time.Now().After(deadline) {
				d.fail("not-serving", "cluster did not return to NORMAL within %d simulated seconds: %s", I[0], d.describe())
				return true
			}
			simrt.Sleep(100 * time.Millisecond)
		}
		d.pushPull()
	case "gatefinal":
		// the other clients' calls change what is being compared: wait for them to finish
		for i := 0; d.othersDone < len(d.c.Plan.Clients)-1 && i < 100000 && !d.c.Stopped(); i++ {
			simrt.Sleep(100 * time.Millisecond)
		}
		g.finalCheck()
	default:
		return rzExtra(d, op)
	}
	return true
}

func (g *gateState) pick(i int) *simNode {
	var c []*simNode
	for _, nd := range g.d.openNodes() {
		if !nd.coord && !g.down[nd.id] {
			c = append(c, nd)
		}
	}
	if len(c) == 0 {
		return nil
	}
	sort.Slice(c, func(a, b int) bool { return c[a].idx < c[b].idx })
	return c[i%len(c)]
}

func genC23(r *simrt.Rand, tier string) *simrt.Plan {
	nodes := 2 + r.Intn(2)
	replicas := 1 + r.Intn(2)
	g, ops := rzBase(r, nodes, replicas)
	ops = append(ops, simrt.Op{K: "gatesetup"})
	ncalls := len(gateCalls)
	gates := func(n int) []simrt.Op {
		var o []simrt.Op
		for i := 0; i < n; i++ {
			o = append(o, simrt.Op{K: "gate", I: []int64{int64(r.Intn(ncalls)), int64(r.Intn(4))}})
		}
		return o
	}
	ops = append(ops, gates(3+r.Intn(6))...)
	phases := 1 + r.Intn(3)
	for p := 0; p < phases; p++ {
		switch r.Intn(4) {
		case 0: // RESIZING: a join whose instructions or completions are slow
			ops = append(ops, simrt.Op{K: "snapowners"},
				simrt.Op{K: "netfault", S: []string{"delay"}, I: []int64{int64(simrt.Pick(r, msgResizeInstr, msgResizeComplete)), 1, int64(simrt.Pick(r, 2000, 20000))}},
				simrt.Op{K: "join"})
			g.nodes++
		case 1: // STARTING: a node reports DOWN
			ops = append(ops, simrt.Op{K: "reportdown", I: []int64{int64(r.Intn(3))}})
		case 2: // DEGRADED (or STARTING when ReplicaN nodes are lost): a node leaves
			ops = append(ops, simrt.Op{K: "leave", I: []int64{int64(r.Intn(3))}})
		case 3: // removal of a node
			ops = append(ops, simrt.Op{K: "snapowners"},
				simrt.Op{K: "netfault", S: []string{"delay"}, I: []int64{int64(simrt.Pick(r, msgResizeInstr, msgResizeComplete)), 1, int64(simrt.Pick(r, 2000, 20000))}},
				simrt.Op{K: "remove", I: []int64{int64(r.Intn(4))}})
		}
		for k := 0; k < 2+r.Intn(8); k++ {
			ops = append(ops, gates(1)...)
			if r.Bool(0.3) {
				ops = append(ops, simrt.Op{K: "nap", I: []int64{int64(simrt.Pick(r, 1, 50, 500))}})
			}
		}
		ops = append(ops, simrt.Op{K: "gatesettle", I: []int64{120}})
		ops = append(ops, gates(1+r.Intn(4))...)
	}
	ops = append(ops, simrt.Op{K: "gatesettle", I: []int64{120}}, simrt.Op{K: "gatefinal"})
	ops = append(ops, rzQueries(g, 2)...)
	p := rzPlan(r, nodes, replicas, ops)
	// a second client fires catalogue calls on its own clock, racing with the state changes
	if r.Bool(0.6) {
		var c1 []simrt.Op
		c1 = append(c1, simrt.Op{K: "gatewait"})
		for i := 0; i < 4+r.Intn(12); i++ {
			c1 = append(c1, simrt.Op{K: "nap", I: []int64{int64(simrt.Pick(r, 1, 20, 200, 1000))}})
			c1 = append(c1, simrt.Op{K: "gate", I: []int64{int64(r.Intn(ncalls)), int64(r.Intn(4))}})
		}
		p.Clients = append(p.Clients, c1)
	}
	return p
}
