package pilosa_test

// Node/cluster-level logical database harness: real schema and data operations
// through PQL, the import endpoints and roaring import against a plain model of
// indexes -> fields -> typed contents. Shared by C08, C14-C19, C28.

import (
	"context"
	"encoding/json"
	"fmt"
	"sort"
	"strings"
	"time"

	"github.com/pilosa/pilosa"
	"verif/simrt"
)

// ---- expressions --------------------------------------------------------------

// expr is a PQL bitmap expression; it is stored as JSON inside a plan op.
type expr struct {
	K    string  `json:"k"` // row rowt rowi union intersect difference xor not shift
	F    string  `json:"f,omitempty"`
	R    int64   `json:"r,omitempty"`
	Op   string  `json:"op,omitempty"` // == != < <= > >= >< notnull
	V    int64   `json:"v,omitempty"`
	V2   int64   `json:"v2,omitempty"`
	From int64   `json:"from,omitempty"` // unix seconds, 0 = absent
	To   int64   `json:"to,omitempty"`
	N    int64   `json:"n,omitempty"`
	B    bool    `json:"b,omitempty"` // row of a bool field: printed as true/false
	C    []*expr `json:"c,omitempty"`
}

func (e *expr) json() string { b, _ := json.Marshal(e); return string(b) }

func parseExpr(s string) *expr {
	var e expr
	if err := json.Unmarshal([]byte(s), &e); err != nil {
		panic("bad expr json: " + err.Error())
	}
	return &e
}

func pqlTime(sec int64) string { return time.Unix(sec, 0).UTC().Format(pilosa.TimeFormat) }

// pql renders the expression as query text (the harness's own printer).
func (e *expr) pql() string {
	switch e.K {
	case "row":
		if e.B {
			return fmt.Sprintf("Row(%s=%v)", e.F, e.R != 0)
		}
		return fmt.Sprintf("Row(%s=%d)", e.F, e.R)
	case "rowt":
		s := fmt.Sprintf("Row(%s=%d", e.F, e.R)
		if e.From != 0 {
			s += fmt.Sprintf(", from='%s'", pqlTime(e.From))
		}
		if e.To != 0 {
			s += fmt.Sprintf(", to='%s'", pqlTime(e.To))
		}
		return s + ")"
	case "rowi":
		switch e.Op {
		case "notnull":
			return fmt.Sprintf("Row(%s != null)", e.F)
		case "><":
			return fmt.Sprintf("Row(%s >< [%d,%d])", e.F, e.V, e.V2)
		}
		return fmt.Sprintf("Row(%s %s %d)", e.F, e.Op, e.V)
	case "not":
		return "Not(" + e.C[0].pql() + ")"
	case "shift":
		return fmt.Sprintf("Shift(%s, n=%d)", e.C[0].pql(), e.N)
	}
	name := map[string]string{"union": "Union", "intersect": "Intersect", "difference": "Difference", "xor": "Xor"}[e.K]
	var parts []string
	for _, c := range e.C {
		parts = append(parts, c.pql())
	}
	return name + "(" + strings.Join(parts, ", ") + ")"
}

// ---- model --------------------------------------------------------------------

type dbField struct {
	name      string
	typ       string // set mutex bool int time
	min, max  int64
	quantum   string
	noStd     bool
	cacheType string
	cacheSize uint32
	bits      map[uint64]map[uint64]bool    // standard view: row -> col
	tbits     map[uint64]map[uint64][]int64 // time views: row -> col -> unix seconds of timestamped sets
	vals      map[uint64]int64
}

type dbIndex struct {
	name   string
	track  bool
	fields map[string]*dbField
	exists map[uint64]bool

	shiftCrossed bool // set by eval when a Shift moved a column into the next shard
}

type dbModel struct {
	idx map[string]*dbIndex
}

func newDBModel() *dbModel { return &dbModel{idx: map[string]*dbIndex{}} }

func (f *dbField) row(r uint64) map[uint64]bool {
	m := f.bits[r]
	if m == nil {
		m = map[uint64]bool{}
		f.bits[r] = m
	}
	return m
}

func (f *dbField) setBit(r, c uint64, ts int64) {
	if f.typ == "mutex" || f.typ == "bool" {
		for rr, m := range f.bits {
			if rr != r {
				delete(m, c)
			}
		}
	}
	if !f.noStd || f.typ != "time" {
		f.row(r)[c] = true
	}
	if f.typ == "time" && ts != 0 {
		if f.tbits[r] == nil {
			f.tbits[r] = map[uint64][]int64{}
		}
		f.tbits[r][c] = append(f.tbits[r][c], ts)
	}
}

func (f *dbField) clearBit(r, c uint64) {
	delete(f.bits[r], c)
	if f.tbits[r] != nil {
		delete(f.tbits[r], c)
	}
}

// quantum helpers: truncate t to the start of the finest unit of q.
func finestUnit(q string) byte { return q[len(q)-1] }

func truncUnit(t time.Time, u byte) time.Time {
	switch u {
	case 'Y':
		return time.Date(t.Year(), 1, 1, 0, 0, 0, 0, time.UTC)
	case 'M':
		return time.Date(t.Year(), t.Month(), 1, 0, 0, 0, 0, time.UTC)
	case 'D':
		return time.Date(t.Year(), t.Month(), t.Day(), 0, 0, 0, 0, time.UTC)
	}
	return time.Date(t.Year(), t.Month(), t.Day(), t.Hour(), 0, 0, 0, time.UTC)
}

func addUnit(t time.Time, u byte, n int) time.Time {
	switch u {
	case 'Y':
		return t.AddDate(n, 0, 0)
	case 'M':
		return t.AddDate(0, n, 0)
	case 'D':
		return t.AddDate(0, 0, n)
	}
	return t.Add(time.Duration(n) * time.Hour)
}

// eval evaluates e over the model of index ix. now is the simulated clock.
func (ix *dbIndex) eval(e *expr, now time.Time) (map[uint64]bool, error) {
	out := map[uint64]bool{}
	switch e.K {
	case "row":
		f := ix.fields[e.F]
		if f == nil {
			return nil, fmt.Errorf("field not found")
		}
		for c := range f.bits[uint64(e.R)] {
			out[c] = true
		}
		return out, nil
	case "rowt":
		f := ix.fields[e.F]
		if f == nil {
			return nil, fmt.Errorf("field not found")
		}
		if f.quantum == "" {
			return out, nil
		}
		from := time.Unix(e.From, 0).UTC()
		if e.From == 0 {
			from = time.Time{}
		}
		to := time.Unix(e.To, 0).UTC()
		if e.To == 0 {
			to = now.AddDate(0, 0, 1)
		}
		for c, tss := range f.tbits[uint64(e.R)] {
			for _, ts := range tss {
				t := time.Unix(ts, 0).UTC()
				if !t.Before(from) && t.Before(to) {
					out[c] = true
				}
			}
		}
		return out, nil
	case "rowi":
		f := ix.fields[e.F]
		if f == nil {
			return nil, fmt.Errorf("field not found")
		}
		for c, v := range f.vals {
			ok := false
			switch e.Op {
			case "notnull":
				ok = true
			case "==":
				ok = v == e.V
			case "!=":
				ok = v != e.V
			case "<":
				ok = v < e.V
			case "<=":
				ok = v <= e.V
			case ">":
				ok = v > e.V
			case ">=":
				ok = v >= e.V
			case "><":
				ok = v >= e.V && v <= e.V2
			}
			if ok {
				out[c] = true
			}
		}
		return out, nil
	case "not":
		in, err := ix.eval(e.C[0], now)
		if err != nil {
			return nil, err
		}
		for c := range ix.exists {
			if !in[c] {
				out[c] = true
			}
		}
		return out, nil
	case "shift":
		in, err := ix.eval(e.C[0], now)
		if err != nil {
			return nil, err
		}
		for c := range in {
			if c/pilosa.ShardWidth != (c+uint64(e.N))/pilosa.ShardWidth {
				ix.shiftCrossed = true
			}
			out[c+uint64(e.N)] = true
		}
		return out, nil
	}
	var sets []map[uint64]bool
	for _, c := range e.C {
		s, err := ix.eval(c, now)
		if err != nil {
			return nil, err
		}
		sets = append(sets, s)
	}
	if len(sets) == 0 {
		return out, nil
	}
	switch e.K {
	case "union":
		for _, s := range sets {
			for c := range s {
				out[c] = true
			}
		}
	case "intersect":
		for c := range sets[0] {
			in := true
			for _, s := range sets[1:] {
				if !s[c] {
					in = false
				}
			}
			if in {
				out[c] = true
			}
		}
	case "difference":
		for c := range sets[0] {
			in := true
			for _, s := range sets[1:] {
				if s[c] {
					in = false
				}
			}
			if in {
				out[c] = true
			}
		}
	case "xor":
		for _, s := range sets {
			for c := range s {
				if out[c] {
					delete(out, c)
				} else {
					out[c] = true
				}
			}
		}
	}
	return out, nil
}

// ---- executor -----------------------------------------------------------------

type db struct {
	c     *simrt.Ctx
	cl    *simCluster
	m     *dbModel
	last  string
	extra func(d *db, op simrt.Op) bool // property-specific ops; returns true if handled

	aux     interface{}       // property-private state
	preOp   func(op simrt.Op) // called before every op
	onQuery func(q string)    // called with every client query text before it is sent

	downNode *simNode // node made unreachable by "nodedown"
	// othersDone counts the clients other than client 0 that have run all their ops
	othersDone int
}

// dbOpts configures execDBOpt.
type dbOpts struct {
	extra   func(d *db, op simrt.Op) bool
	prepare func(d *db) // runs after the cluster object exists and before it starts
}

func (d *db) fail(class, format string, a ...interface{}) {
	d.c.Fail(class, "after %s: %s", d.last, fmt.Sprintf(format, a...))
}

// node maps a plan's node number to the index of a node that is open and still a member.
func (d *db) node(i int64) int {
	var live []int
	for k, nd := range d.cl.nodes {
		if nd.opened && !nd.gone {
			live = append(live, k)
		}
	}
	if len(live) == 0 {
		return int(i) % len(d.cl.nodes)
	}
	return live[int(i)%len(live)]
}

func cacheTypeName(k int64) string {
	switch k {
	case 1:
		return pilosa.CacheTypeLRU
	case 2:
		return pilosa.CacheTypeNone
	}
	return pilosa.CacheTypeRanked
}

// mkfield: S=[index,name,type,quantum] I=[min,max,cacheType,cacheSize,noStd]
func (d *db) fieldOpts(op simrt.Op) ([]pilosa.FieldOption, *dbField) {
	S, I := op.S, op.I
	f := &dbField{name: S[1], typ: S[2], bits: map[uint64]map[uint64]bool{}, tbits: map[uint64]map[uint64][]int64{}, vals: map[uint64]int64{}}
	var opts []pilosa.FieldOption
	switch f.typ {
	case "set":
		f.cacheType, f.cacheSize = cacheTypeName(I[2]), uint32(I[3])
		opts = append(opts, pilosa.OptFieldTypeSet(f.cacheType, f.cacheSize))
	case "mutex":
		f.cacheType, f.cacheSize = cacheTypeName(I[2]), uint32(I[3])
		opts = append(opts, pilosa.OptFieldTypeMutex(f.cacheType, f.cacheSize))
	case "bool":
		opts = append(opts, pilosa.OptFieldTypeBool())
	case "int":
		f.min, f.max = I[0], I[1]
		opts = append(opts, pilosa.OptFieldTypeInt(f.min, f.max))
	case "time":
		f.quantum, f.noStd = S[3], I[4] != 0
		opts = append(opts, pilosa.OptFieldTypeTime(pilosa.TimeQuantum(f.quantum), f.noStd))
	}
	return opts, f
}

func (d *db) query(node int, index, q string) ([]interface{}, error) {
	if d.onQuery != nil {
		d.onQuery(q)
	}
	return d.cl.query(node, index, q)
}

func (d *db) apply(op simrt.Op) {
	ctx := context.Background()
	if d.preOp != nil {
		d.preOp(op)
		if d.c.Failed() {
			return
		}
	}
	S, I := op.S, op.I
	switch op.K {
	case "mkindex":
		nd := d.cl.nodes[d.node(I[1])]
		_, err := nd.api.CreateIndex(ctx, S[0], pilosa.IndexOptions{TrackExistence: I[0] != 0})
		if err != nil {
			d.c.Fail("schema-error", "CreateIndex(%s): %v", S[0], err)
			return
		}
		d.m.idx[S[0]] = &dbIndex{name: S[0], track: I[0] != 0, fields: map[string]*dbField{}, exists: map[uint64]bool{}}
		d.last = "mkindex " + S[0]
	case "mkfield":
		ix := d.m.idx[S[0]]
		if ix == nil {
			return
		}
		opts, f := d.fieldOpts(op)
		nd := d.cl.nodes[d.node(I[5])]
		if _, err := nd.api.CreateField(ctx, S[0], S[1], opts...); err != nil {
			d.c.Fail("schema-error", "CreateField(%s/%s %s): %v", S[0], S[1], S[2], err)
			return
		}
		ix.fields[S[1]] = f
		d.last = fmt.Sprintf("mkfield %s/%s %s", S[0], S[1], S[2])
	case "rmfield":
		ix := d.m.idx[S[0]]
		if ix == nil || ix.fields[S[1]] == nil {
			return
		}
		if err := d.cl.nodes[d.node(I[0])].api.DeleteField(ctx, S[0], S[1]); err != nil {
			d.c.Fail("schema-error", "DeleteField: %v", err)
			return
		}
		delete(ix.fields, S[1])
		d.last = fmt.Sprintf("rmfield %s/%s", S[0], S[1])
	case "rmindex":
		if d.m.idx[S[0]] == nil {
			return
		}
		if err := d.cl.nodes[d.node(I[0])].api.DeleteIndex(ctx, S[0]); err != nil {
			d.c.Fail("schema-error", "DeleteIndex: %v", err)
			return
		}
		delete(d.m.idx, S[0])
		d.last = "rmindex " + S[0]
	case "multi": // S=[index,field] I=[node,row,col...]: Set(col,f=row)... Count(Row(f=row)) Row(f=row) in ONE request
		ix, f := d.lookup(S)
		if f == nil || f.typ != "set" {
			return
		}
		row := uint64(I[1])
		q := ""
		var wantChanged []bool
		for _, c := range I[2:] {
			q += fmt.Sprintf("Set(%d, %s=%d) ", c, f.name, row)
			wantChanged = append(wantChanged, !f.row(row)[uint64(c)])
			f.setBit(row, uint64(c), 0)
			if ix.track {
				ix.exists[uint64(c)] = true
			}
		}
		q += fmt.Sprintf("Count(Row(%s=%d)) Row(%s=%d)", f.name, row, f.name, row)
		res, err := d.query(d.node(I[0]), ix.name, q)
		d.last = q
		if err != nil {
			d.c.Fail("write-error", "%s: %v", q, err)
			return
		}
		if len(res) != len(wantChanged)+2 {
			d.fail("multi-call", "%s returned %d results", q, len(res))
			return
		}
		for i, w := range wantChanged {
			if got, _ := res[i].(bool); got != w {
				d.fail("changed-flag", "call %d of %s returned %v want %v", i, q, res[i], w)
				return
			}
		}
		want := sortedU64(f.row(row))
		if n, _ := res[len(res)-2].(uint64); int(n) != len(want) {
			d.fail("multi-call", "%s: Count in the same request = %v, want %d (the calls of a request run in order)", q, res[len(res)-2], len(want))
			return
		}
		if rr, ok := res[len(res)-1].(*pilosa.Row); !ok || fmtU64(rr.Columns()) != fmtU64(want) {
			got := "?"
			if ok {
				got = fmtU64(rr.Columns())
			}
			d.fail("multi-call", "%s: Row in the same request = %s want %s (the calls of a request run in order)", q, got, fmtU64(want))
			return
		}
		d.c.Probe("multi-call-requests")
	case "set": // S=[index,field] I=[row,col,node,ts]
		ix, f := d.lookup(S)
		if f == nil {
			return
		}
		r, col, ts := uint64(I[0]), uint64(I[1]), I[3]
		var q string
		switch {
		case f.typ == "int":
			q = fmt.Sprintf("Set(%d, %s=%d)", col, f.name, I[0])
		case f.typ == "bool":
			q = fmt.Sprintf("Set(%d, %s=%v)", col, f.name, r != 0)
		case f.typ == "time" && ts != 0:
			q = fmt.Sprintf("Set(%d, %s=%d, %s)", col, f.name, r, pqlTime(ts))
		default:
			q = fmt.Sprintf("Set(%d, %s=%d)", col, f.name, r)
		}
		res, err := d.query(d.node(I[2]), ix.name, q)
		if err != nil {
			d.c.Fail("write-error", "%s: %v", q, err)
			return
		}
		d.last = q
		var want bool
		if f.typ == "int" {
			old, ok := f.vals[col]
			want = !ok || old != I[0]
			f.vals[col] = I[0]
		} else {
			rr := r
			if f.typ == "bool" && r != 0 {
				rr = 1
			}
			want = !f.bits[rr][col]
			if f.typ == "time" && f.noStd && ts == 0 {
				want = false // nothing to write: no standard view and no timestamp
			}
			f.setBit(rr, col, ts)
		}
		if ix.track {
			ix.exists[col] = true
		}
		if got, ok := res[0].(bool); !ok || (got != want && !(f.typ == "time" && ts != 0)) {
			d.fail("changed-flag", "%s returned %v want %v", q, res[0], want)
		}
	case "clear": // S=[index,field] I=[row,col,node]
		ix, f := d.lookup(S)
		if f == nil || f.typ == "int" {
			return
		}
		r, col := uint64(I[0]), uint64(I[1])
		q := fmt.Sprintf("Clear(%d, %s=%d)", col, f.name, r)
		if f.typ == "bool" {
			r = uint64(I[0] & 1)
			q = fmt.Sprintf("Clear(%d, %s=%v)", col, f.name, r != 0)
		}
		_, err := d.query(d.node(I[2]), ix.name, q)
		if err != nil {
			d.c.Fail("write-error", "%s: %v", q, err)
			return
		}
		d.last = q
		f.clearBit(r, col)
	case "clearrow": // S=[index,field] I=[row,node]
		ix, f := d.lookup(S)
		if f == nil || f.typ == "int" {
			return
		}
		q := fmt.Sprintf("ClearRow(%s=%d)", f.name, I[0])
		if f.typ == "bool" {
			q = fmt.Sprintf("ClearRow(%s=%v)", f.name, I[0]&1 != 0)
		}
		if _, err := d.query(d.node(I[1]), ix.name, q); err != nil {
			d.c.Fail("write-error", "%s: %v", q, err)
			return
		}
		d.last = q
		r := uint64(I[0])
		if f.typ == "bool" {
			r = uint64(I[0] & 1)
		}
		delete(f.bits, r)
		delete(f.tbits, r)
	case "store": // S=[index,field,expr] I=[row,node]
		ix, f := d.lookup(S)
		if f == nil || f.typ != "set" {
			return
		}
		e := parseExpr(S[2])
		want, err := ix.eval(e, time.Now())
		if err != nil {
			return
		}
		q := fmt.Sprintf("Store(%s, %s=%d)", e.pql(), f.name, I[0])
		if _, err := d.query(d.node(I[1]), ix.name, q); err != nil {
			d.c.Fail("write-error", "%s: %v", q, err)
			return
		}
		d.last = q
		f.bits[uint64(I[0])] = want
	case "import": // S=[index,field] I=[clear,node, (row,col,ts)*]
		d.doImport(op)
	case "importval": // S=[index,field] I=[clear,node,(col,val)*]
		d.doImportValue(op)
	case "bulkval": // S=[index,field] I=[node,firstCol,n,seed,lo,hi]: one large batch of values in [lo,hi]
		r := simrt.NewRand(uint64(I[3]))
		big := simrt.Op{K: "importval", S: S, I: []int64{0, I[0]}}
		for k := int64(0); k < I[2]; k++ {
			v := I[4]
			if I[5] > I[4] {
				v += r.Int63n(I[5] - I[4] + 1)
			}
			if r.Bool(0.3) {
				v = simrt.Pick(r, I[4], I[5], (I[4]+I[5])/2)
			}
			big.I = append(big.I, I[1]+k, v)
		}
		d.doImportValue(big)
		d.c.Probe("bulk-value-import")
	case "iroaring": // S=[index,field] I=[clear,fmt,node,(row,col)*]
		d.doImportRoaring(op)
	case "q": // S=[index,expr] I=[node]
		d.checkQuery(S[0], parseExpr(S[1]), d.node(I[0]), false)
	case "count":
		d.checkQuery(S[0], parseExpr(S[1]), d.node(I[0]), true)
	case "restart":
		if len(d.cl.nodes) != 1 {
			return
		}
		before := schemaText(d.cl.nodes[0].api.Schema(ctx))
		if err := d.cl.restartSingle(); err != nil {
			d.c.Fail("restart-error", "%v", err)
			return
		}
		if after := schemaText(d.cl.nodes[0].api.Schema(ctx)); after != before {
			d.c.Fail("schema-changed", "after %s: the schema differs across a clean restart:\n before: %s\n after:  %s", d.last, before, after)
			return
		}
		d.c.Probe("schema-compared-across-restart")
		d.last += "+restart"
	case "recalc":
		for _, nd := range d.cl.nodes {
			if err := nd.api.RecalculateCaches(ctx); err != nil {
				d.c.Fail("recalc-error", "%v", err)
			}
		}
	case "sleep":
		simrt.Sleep(time.Duration(I[0]) * time.Second)
	default:
		if d.extra == nil || !d.extra(d, op) {
			panic("db: unknown op " + op.K)
		}
	}
}

func (d *db) lookup(S []string) (*dbIndex, *dbField) {
	ix := d.m.idx[S[0]]
	if ix == nil {
		return nil, nil
	}
	return ix, ix.fields[S[1]]
}

func (d *db) doImport(op simrt.Op) {
	ix, f := d.lookup(op.S)
	if f == nil || f.typ == "int" {
		return
	}
	I := op.I
	clear := I[0] != 0
	byShard := map[uint64][]pilosa.Bit{}
	type rct struct {
		r, c uint64
		ts   int64
	}
	var all []rct
	for i := 2; i+2 < len(I); i += 3 {
		r, c, ts := uint64(I[i]), uint64(I[i+1]), I[i+2]
		if f.typ == "bool" {
			r &= 1
		}
		if f.typ != "time" || clear {
			ts = 0
		}
		b := pilosa.Bit{RowID: r, ColumnID: c}
		if ts != 0 {
			b.Timestamp = ts * 1e9
		}
		byShard[c/pilosa.ShardWidth] = append(byShard[c/pilosa.ShardWidth], b)
		all = append(all, rct{r, c, ts})
	}
	var shards []uint64
	for s := range byShard {
		shards = append(shards, s)
	}
	sort.Slice(shards, func(i, j int) bool { return shards[i] < shards[j] })
	nd := d.cl.nodes[d.node(I[1])]
	var opts []pilosa.ImportOption
	if clear {
		opts = append(opts, pilosa.OptImportOptionsClear(true))
	}
	for _, s := range shards {
		if err := nd.ext.Import(context.Background(), ix.name, f.name, s, byShard[s], opts...); err != nil {
			d.c.Fail("write-error", "Import(%s/%s shard %d clear=%v): %v", ix.name, f.name, s, clear, err)
			return
		}
	}
	d.last = fmt.Sprintf("import(%s/%s clear=%v %d bits)", ix.name, f.name, clear, len(all))
	for _, b := range all {
		if clear {
			// an import with the clear option carries no timestamps (Field.Import refuses
			// them) and addresses the standard view only; time views keep the bit
			delete(f.bits[b.r], b.c)
		} else {
			f.setBit(b.r, b.c, b.ts)
			if ix.track {
				ix.exists[b.c] = true
			}
		}
	}
}

func (d *db) doImportValue(op simrt.Op) {
	ix, f := d.lookup(op.S)
	if f == nil || f.typ != "int" {
		return
	}
	I := op.I
	clear := I[0] != 0
	byShard := map[uint64][]pilosa.FieldValue{}
	for i := 2; i+1 < len(I); i += 2 {
		c := uint64(I[i])
		byShard[c/pilosa.ShardWidth] = append(byShard[c/pilosa.ShardWidth], pilosa.FieldValue{ColumnID: c, Value: I[i+1]})
	}
	var shards []uint64
	for s := range byShard {
		shards = append(shards, s)
	}
	sort.Slice(shards, func(i, j int) bool { return shards[i] < shards[j] })
	nd := d.cl.nodes[d.node(I[1])]
	var opts []pilosa.ImportOption
	if clear {
		opts = append(opts, pilosa.OptImportOptionsClear(true))
	}
	for _, s := range shards {
		if err := nd.ext.ImportValue(context.Background(), ix.name, f.name, s, byShard[s], opts...); err != nil {
			d.c.Fail("write-error", "ImportValue(%s/%s shard %d clear=%v): %v", ix.name, f.name, s, clear, err)
			return
		}
	}
	d.last = fmt.Sprintf("importval(%s/%s clear=%v)", ix.name, f.name, clear)
	for i := 2; i+1 < len(I); i += 2 {
		c := uint64(I[i])
		if clear {
			delete(f.vals, c)
		} else {
			f.vals[c] = I[i+1]
			if ix.track {
				ix.exists[c] = true
			}
		}
	}
}

func (d *db) doImportRoaring(op simrt.Op) {
	ix, f := d.lookup(op.S)
	if f == nil || (f.typ != "set" && f.typ != "time") {
		return
	}
	I := op.I
	clear := I[0] != 0
	byShard := map[uint64][]uint64{}
	type rc struct{ r, c uint64 }
	var all []rc
	for i := 3; i+1 < len(I); i += 2 {
		r, c := uint64(I[i]), uint64(I[i+1])
		s := c / pilosa.ShardWidth
		byShard[s] = append(byShard[s], r*pilosa.ShardWidth+c%pilosa.ShardWidth)
		all = append(all, rc{r, c})
	}
	var shards []uint64
	for s := range byShard {
		shards = append(shards, s)
	}
	sort.Slice(shards, func(i, j int) bool { return shards[i] < shards[j] })
	nd := d.cl.nodes[d.node(I[2])]
	for _, s := range shards {
		var data []byte
		switch I[1] {
		case 0:
			data = simrt.EncodePilosa(byShard[s], 0, nil)
		case 1:
			data = simrt.EncodeOfficial(byShard[s], false, nil)
		default:
			data = simrt.EncodeOfficial(byShard[s], true, nil)
		}
		req := &pilosa.ImportRoaringRequest{Clear: clear, Views: map[string][]byte{"": data}}
		if err := nd.ext.ImportRoaring(context.Background(), nd.uri, ix.name, f.name, s, false, req); err != nil {
			d.c.Fail("write-error", "ImportRoaring(%s/%s shard %d): %v", ix.name, f.name, s, err)
			return
		}
	}
	d.last = fmt.Sprintf("iroaring(%s/%s clear=%v fmt=%d %d bits)", ix.name, f.name, clear, I[1], len(all))
	for _, b := range all {
		if clear {
			delete(f.bits[b.r], b.c)
		} else {
			f.row(b.r)[b.c] = true
		}
	}
}

// checkQuery runs e on a node and compares with the model.
func (d *db) checkQuery(index string, e *expr, node int, count bool) {
	ix := d.m.idx[index]
	if ix == nil {
		return
	}
	ix.shiftCrossed = false
	want, merr := ix.eval(e, time.Now())
	cls := func(c string) string {
		if ix.shiftCrossed {
			return "shift-across-shard"
		}
		return c
	}
	q := e.pql()
	if count {
		q = "Count(" + q + ")"
	}
	res, err := d.query(node, index, q)
	if merr != nil {
		if err == nil {
			d.fail("query-accepted", "%s on node %d succeeded but the model says: %v", q, node, merr)
		}
		return
	}
	if err != nil {
		d.fail("query-error", "%s on node %d: %v", q, node, err)
		return
	}
	if ix.shiftCrossed && d.c.Plan.Prop != "C15" {
		// a bit shifted past its shard's last column: the answer is wrong in a way recorded
		// under C15 (known finding C15-F1); the other properties' checks do not re-report it
		d.c.Probe("shift-crossed-skipped")
		return
	}
	ws := sortedU64(want)
	if count {
		n, ok := res[0].(uint64)
		if !ok || n != uint64(len(ws)) {
			d.fail(cls("count"), "%s on node %d = %v want %d", q, node, res[0], len(ws))
		}
		return
	}
	got, ok := rowColumns(res[0])
	if !ok {
		d.fail("query-type", "%s returned %T", q, res[0])
		return
	}
	if !equalU64(got, ws) {
		d.fail(cls("row"), "%s on node %d = %s want %s", q, node, fmtU64(got), fmtU64(ws))
	}
	d.c.Probe("queries-checked")
}

// execDB is the shared executor: knobs nodes/replicas; client 0's ops run sequentially.
func execDB(extra func(d *db, op simrt.Op) bool) func(c *simrt.Ctx) {
	return execDBOpt(dbOpts{extra: extra})
}

func execDBOpt(o dbOpts) func(c *simrt.Ctx) {
	extra := o.extra
	return func(c *simrt.Ctx) {
		var d *db
		c.S.SetEager(true)
		c.Do("setup", func() {
			cl := newSimCluster(c, int(c.Plan.Knob("nodes", 1)), int(c.Plan.Knob("replicas", 1)))
			cl.poolSize = int(c.Plan.Knob("pool", 0))
			d = &db{c: c, cl: cl, m: newDBModel(), extra: extra}
			c.State = d
			if o.prepare != nil {
				o.prepare(d)
			}
			if err := cl.start(); err != nil {
				c.Fail("start", "%v", err)
				return
			}
			if !cl.awaitState(pilosa.ClusterStateNormal, 30*time.Second) {
				c.Inconclusive("cluster-not-normal")
			}
		})
		if c.Stopped() {
			c.S.SetEager(true)
			c.Do("teardown", func() { d.cl.closeAll() })
			return
		}
		c.S.SetEager(c.Plan.Knob("eager", 0) != 0)
		for ci := range c.Plan.Clients {
			ci := ci
			c.Go(fmt.Sprintf("c%d", ci), func() {
				for _, op := range c.Plan.Clients[ci] {
					if c.Stopped() {
						return
					}
					if ci == 0 {
						d.apply(op)
					} else {
						// further clients only run property-specific ops (the model is client 0's)
						d.extra(d, op)
					}
					c.OpDone()
				}
				if ci > 0 {
					d.othersDone++
				}
			})
		}
		c.RunTasks()
		c.S.SetEager(true)
		c.Do("teardown", func() { d.cl.closeAll() })
	}
}

// schemaText renders a schema with indexes, fields and views in name order.
func schemaText(ixs []*pilosa.IndexInfo) string {
	ixs = append([]*pilosa.IndexInfo(nil), ixs...)
	sort.Slice(ixs, func(i, j int) bool { return ixs[i].Name < ixs[j].Name })
	var sb strings.Builder
	for _, ix := range ixs {
		fmt.Fprintf(&sb, "index %s %+v {", ix.Name, ix.Options)
		fs := append([]*pilosa.FieldInfo(nil), ix.Fields...)
		sort.Slice(fs, func(i, j int) bool { return fs[i].Name < fs[j].Name })
		for _, f := range fs {
			var vs []string
			for _, v := range f.Views {
				vs = append(vs, v.Name)
			}
			sort.Strings(vs)
			fmt.Fprintf(&sb, " field %s %+v views%v;", f.Name, f.Options, vs)
		}
		sb.WriteString(" } ")
	}
	return sb.String()
}
