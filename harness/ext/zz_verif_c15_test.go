package pilosa_test

// C15: bitmap queries return the set-algebra result over stored data.

import (
	"verif/simrt"
)

func init() {
	simrt.Register(&simrt.Prop{ID: "C15", Gen: genC15, Exec: execDB(nil)})
}

func genC15(r *simrt.Rand, tier string) *simrt.Plan {
	nodes := simrt.Pick(r, 1, 1, 2, 3, 4)
	replicas := 1
	g := newDBGen(r, nodes)
	if nodes > 1 && r.Bool(0.4) {
		replicas = 2
		g.noStore = true // ClearRow/Store change one replica only (DESIGN appendix A)
	}
	track := r.Bool(0.7)
	types := []string{"set", "set"}
	for _, t := range []string{"time", "int", "mutex", "bool"} {
		if r.Bool(0.5) {
			types = append(types, t)
		}
	}
	ops := g.schema(track, types)
	n := 10 + r.Intn(40)
	if tier == "thorough" {
		n = 10 + r.Intn(80)
	}
	for i := 0; i < n; i++ {
		if r.Bool(0.06) {
			// several calls in one request: writes (possibly to new shards) followed by reads
			if f := g.field("set"); f != nil {
				I := []int64{g.node(), g.row()}
				for k := 0; k < 1+r.Intn(3); k++ {
					I = append(I, g.col())
				}
				ops = append(ops, simrt.Op{K: "multi", S: []string{g.index, f.name}, I: I})
				continue
			}
		}
		if r.Bool(0.55) {
			ops = append(ops, g.write())
			continue
		}
		e := g.expr(1 + r.Intn(3))
		if !track {
			e = stripNot(e)
		}
		k := "q"
		if r.Bool(0.25) {
			k = "count"
		}
		ops = append(ops, simrt.Op{K: k, S: []string{g.index, e.json()}, I: []int64{g.node()}})
	}
	return &simrt.Plan{Knobs: map[string]int64{"nodes": int64(nodes), "replicas": int64(replicas), "pool": int64(simrt.Pick(r, 0, 1, 2, 8))},
		Clients: [][]simrt.Op{ops}, Sched: dbSched(r)}
}
