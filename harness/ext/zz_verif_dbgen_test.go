package pilosa_test

import (
	"sort"
	"time"

	"github.com/pilosa/pilosa"
	"verif/simrt"
)

// dbGen generates schemas, writes and queries for the logical database harness.
type dbGen struct {
	r       *simrt.Rand
	index   string
	nodes   int
	fields  []dbGenField
	rows    []int64
	cols    []int64
	base    time.Time
	noStore bool
	noNot   bool
	noShift bool
	noInt   bool // no int-field predicates in expressions
}

type dbGenField struct {
	name, typ, quantum string
	min, max           int64
	noStd              bool
}

var allQuanta = []string{"Y", "YM", "YMD", "YMDH", "M", "MD", "MDH", "D", "DH", "H"}

func newDBGen(r *simrt.Rand, nodes int) *dbGen {
	g := &dbGen{r: r, index: "i", nodes: nodes, base: time.Date(2018, 1, 1, 0, 0, 0, 0, time.UTC)}
	g.rows = []int64{0, 1, 2, 7}
	sw := int64(pilosa.ShardWidth)
	shards := []int64{0, 1, 2, 5}[:1+r.Intn(4)]
	offs := []int64{0, 1, 65535, 65536, sw - 1, sw - 2, r.Int63n(sw), r.Int63n(sw)}
	if r.Bool(0.7) {
		// most runs stay clear of the last columns of a shard, where Shift is
		// known not to carry into the next shard, so that everything else is explored
		offs = []int64{0, 1, 65535, 65536, 65534, sw - 65536, r.Int63n(sw - 8), r.Int63n(sw - 8)}
	}
	n := 4 + r.Intn(6)
	seen := map[int64]bool{}
	for tries := 0; len(g.cols) < n && tries < 200; tries++ {
		c := shards[r.Intn(len(shards))]*sw + offs[r.Intn(len(offs))]
		if tries > 50 {
			c = shards[r.Intn(len(shards))]*sw + r.Int63n(sw)
		}
		if !seen[c] {
			seen[c] = true
			g.cols = append(g.cols, c)
		}
	}
	sort.Slice(g.cols, func(i, j int) bool { return g.cols[i] < g.cols[j] })
	return g
}

func (g *dbGen) node() int64 { return int64(g.r.Intn(g.nodes)) }
func (g *dbGen) row() int64  { return g.rows[g.r.Intn(len(g.rows))] }
func (g *dbGen) col() int64  { return g.cols[g.r.Intn(len(g.cols))] }

// ts returns a timestamp (unix seconds) inside the 3-year window, on an hour boundary.
func (g *dbGen) ts() int64 {
	r := g.r
	t := g.base
	switch r.Intn(6) {
	case 0: // month/year ends and leap day
		t = simrt.Pick(r, time.Date(2018, 12, 31, 23, 0, 0, 0, time.UTC), time.Date(2019, 1, 1, 0, 0, 0, 0, time.UTC),
			time.Date(2020, 2, 29, 13, 0, 0, 0, time.UTC), time.Date(2018, 1, 31, 23, 0, 0, 0, time.UTC), time.Date(2018, 3, 1, 0, 0, 0, 0, time.UTC))
	default:
		t = g.base.AddDate(r.Intn(3), r.Intn(12), r.Intn(28)).Add(time.Duration(r.Intn(24)) * time.Hour)
	}
	return t.Unix()
}

func (g *dbGen) field(typ ...string) *dbGenField {
	var c []*dbGenField
	for i := range g.fields {
		for _, t := range typ {
			if g.fields[i].typ == t {
				c = append(c, &g.fields[i])
			}
		}
	}
	if len(c) == 0 {
		return nil
	}
	return c[g.r.Intn(len(c))]
}

func (g *dbGen) mkfieldOp(f dbGenField) simrt.Op {
	r := g.r
	noStd := int64(0)
	if f.noStd {
		noStd = 1
	}
	return simrt.Op{K: "mkfield", S: []string{g.index, f.name, f.typ, f.quantum},
		I: []int64{f.min, f.max, int64(r.Intn(3)), simrt.Pick(r, int64(1), 3, 50000), noStd, g.node()}}
}

// schema emits index and field creation ops.
func (g *dbGen) schema(track bool, types []string) []simrt.Op {
	r := g.r
	t := int64(0)
	if track {
		t = 1
	}
	g.noNot = !track
	ops := []simrt.Op{{K: "mkindex", S: []string{g.index}, I: []int64{t, g.node()}}}
	for i, typ := range types {
		f := dbGenField{name: typ[:1] + string(rune('a'+i)), typ: typ}
		switch typ {
		case "int":
			f.min, f.max = intBounds(r)
		case "time":
			f.quantum = allQuanta[r.Intn(len(allQuanta))]
			f.noStd = r.Bool(0.15)
		}
		g.fields = append(g.fields, f)
		ops = append(ops, g.mkfieldOp(f))
	}
	return ops
}

func intBounds(r *simrt.Rand) (int64, int64) {
	switch r.Intn(8) {
	case 0:
		return 0, 100
	case 1:
		return -100, -10
	case 2:
		return -50, 50
	case 3:
		return 7, 7
	case 4:
		return 10, 1000
	case 5:
		return -(1 << 62), 1 << 62
	case 6:
		return 0, 1
	}
	return -1000, 1000
}

func (g *dbGen) intVal(f *dbGenField) int64 {
	r := g.r
	span := f.max - f.min
	switch r.Intn(6) {
	case 0:
		return f.min
	case 1:
		return f.max
	case 2:
		if f.min <= 0 && f.max >= 0 {
			return 0
		}
	case 3:
		if f.min < f.max {
			return f.min + 1
		}
	}
	if span <= 0 {
		return f.min
	}
	if span > 2000 || span < 0 {
		return simrt.Pick(r, int64(-3), -1, 0, 1, 2, 1<<40, -(1 << 40), 1<<62-1)
	}
	return f.min + r.Int63n(span+1)
}

// write emits one data write op.
func (g *dbGen) write() simrt.Op {
	r := g.r
	for tries := 0; tries < 20; tries++ {
		f := &g.fields[r.Intn(len(g.fields))]
		idx := []string{g.index, f.name}
		switch f.typ {
		case "int":
			if r.Bool(0.6) {
				return simrt.Op{K: "set", S: idx, I: []int64{g.intVal(f), g.col(), g.node(), 0}}
			}
			clear := int64(0)
			if r.Bool(0.2) {
				clear = 1
			}
			I := []int64{clear, g.node()}
			n := 1 + r.Intn(5)
			seen := map[int64]bool{}
			for i := 0; i < n; i++ {
				c := g.col()
				if seen[c] {
					continue
				}
				seen[c] = true
				I = append(I, c, g.intVal(f))
			}
			return simrt.Op{K: "importval", S: idx, I: I}
		default:
			switch x := r.Intn(12); {
			case x < 4:
				ts := int64(0)
				if f.typ == "time" && r.Bool(0.8) {
					ts = g.ts()
				}
				return simrt.Op{K: "set", S: idx, I: []int64{g.row(), g.col(), g.node(), ts}}
			case x < 6:
				return simrt.Op{K: "clear", S: idx, I: []int64{g.row(), g.col(), g.node()}}
			case x < 9:
				clear := int64(0)
				if r.Bool(0.25) {
					clear = 1
				}
				I := []int64{clear, g.node()}
				n := 1 + r.Intn(6)
				seen := map[int64]bool{}
				for i := 0; i < n; i++ {
					c := g.col()
					if (f.typ == "mutex" || f.typ == "bool") && seen[c] {
						continue
					}
					seen[c] = true
					ts := int64(0)
					if f.typ == "time" && r.Bool(0.8) {
						ts = g.ts()
					}
					I = append(I, g.row(), c, ts)
				}
				return simrt.Op{K: "import", S: idx, I: I}
			case x < 10:
				if f.typ != "set" && f.typ != "time" {
					continue
				}
				clear := int64(0)
				if r.Bool(0.25) {
					clear = 1
				}
				I := []int64{clear, int64(r.Intn(3)), g.node()}
				n := 1 + r.Intn(6)
				for i := 0; i < n; i++ {
					I = append(I, g.row(), g.col())
				}
				return simrt.Op{K: "iroaring", S: idx, I: I}
			case x < 11:
				if g.noStore {
					continue
				}
				return simrt.Op{K: "clearrow", S: idx, I: []int64{g.row(), g.node()}}
			default:
				if g.noStore || f.typ != "set" {
					continue
				}
				ns := g.noShift
				g.noShift = true
				e := g.expr(2)
				g.noShift = ns
				return simrt.Op{K: "store", S: []string{g.index, f.name, e.json()}, I: []int64{g.row(), g.node()}}
			}
		}
	}
	return simrt.Op{K: "set", S: []string{g.index, g.fields[0].name}, I: []int64{g.row(), g.col(), g.node(), 0}}
}

// alignedRange returns from/to (unix seconds) aligned to the quantum's finest unit.
func (g *dbGen) alignedRange(q string) (int64, int64) {
	r := g.r
	u := finestUnit(q)
	start := truncUnit(time.Unix(g.ts(), 0).UTC(), u)
	n := 1 + r.Intn(4)
	switch r.Intn(5) {
	case 0:
		n = 1 + r.Intn(40)
	case 1:
		// long range across month and year ends
		if u == 'H' {
			n = 24*28 + r.Intn(24*400)
		} else if u == 'D' {
			n = 25 + r.Intn(800)
		} else if u == 'M' {
			n = 1 + r.Intn(30)
		}
	}
	end := addUnit(start, u, n)
	return start.Unix(), end.Unix()
}

// leaf returns a leaf expression.
func (g *dbGen) leaf() *expr {
	r := g.r
	for tries := 0; tries < 10; tries++ {
		f := &g.fields[r.Intn(len(g.fields))]
		switch f.typ {
		case "int":
			if g.noInt {
				continue
			}
			op := simrt.Pick(r, "==", "!=", "<", "<=", ">", ">=", "><", "notnull")
			v := g.intVal(f)
			if r.Bool(0.3) {
				// predicates at and beyond the declared bounds
				v = simrt.Pick(r, f.min-1, f.min, f.max, f.max+1, f.min-1000, f.max+1000)
			} else if r.Bool(0.25) {
				// around zero and around powers of two (bit-depth edges)
				v = simrt.Pick(r, int64(-2), -1, 0, 1, 2, 3, 4, 7, 8, -7, -8, 15, 16, 31, 32, 63, 64, -63, -64)
			}
			e := &expr{K: "rowi", F: f.name, Op: op, V: v}
			if op == "><" {
				e.V2 = g.intVal(f)
				if r.Bool(0.3) {
					e.V2 = simrt.Pick(r, f.max, f.max+1, f.max+1000)
				}
				if e.V2 < e.V {
					e.V, e.V2 = e.V2, e.V
				}
			}
			return e
		case "time":
			if r.Bool(0.7) {
				from, to := g.alignedRange(f.quantum)
				return &expr{K: "rowt", F: f.name, R: g.row(), From: from, To: to}
			}
			if f.noStd {
				continue
			}
			return &expr{K: "row", F: f.name, R: g.row()}
		case "bool":
			return &expr{K: "row", F: f.name, R: int64(r.Intn(2)), B: true}
		default:
			return &expr{K: "row", F: f.name, R: g.row()}
		}
	}
	return &expr{K: "row", F: g.fields[0].name, R: g.row()}
}

func (g *dbGen) expr(depth int) *expr {
	r := g.r
	if depth <= 0 || r.Bool(0.3) {
		return g.leaf()
	}
	switch x := r.Intn(10); {
	case x < 7:
		k := simrt.Pick(r, "union", "intersect", "difference", "xor")
		n := 1 + r.Intn(3)
		if r.Bool(0.05) {
			n = 0
		}
		e := &expr{K: k}
		for i := 0; i < n; i++ {
			e.C = append(e.C, g.expr(depth-1))
		}
		if len(e.C) == 0 && k != "union" {
			e.C = append(e.C, g.leaf())
		}
		return e
	case x < 8:
		if g.noNot {
			return g.expr(depth - 1)
		}
		return &expr{K: "not", C: []*expr{g.expr(depth - 1)}}
	default:
		if g.noShift {
			return g.expr(depth - 1)
		}
		return &expr{K: "shift", N: int64(simrt.Pick(r, 1, 1, 2, 3)), C: []*expr{g.expr(depth - 1)}}
	}
}

func usesNot(e *expr) bool {
	if e.K == "not" {
		return true
	}
	for _, c := range e.C {
		if usesNot(c) {
			return true
		}
	}
	return false
}

func stripNot(e *expr) *expr {
	if e.K == "not" {
		return stripNot(e.C[0])
	}
	for i, c := range e.C {
		e.C[i] = stripNot(c)
	}
	return e
}

func dbSched(r *simrt.Rand) simrt.Config {
	cfg := simrt.Config{Seed: int64(r.Uint64() >> 1), ShuffleMaps: r.Bool(0.5)}
	if r.Bool(0.3) {
		cfg.Mode = "random"
	} else {
		n := r.Intn(4)
		for i := 0; i < n; i++ {
			cfg.Changes = append(cfg.Changes, r.Intn(3000))
		}
		sort.Ints(cfg.Changes)
	}
	return cfg
}
