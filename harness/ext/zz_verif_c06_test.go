package pilosa_test

// C06: malformed external input is rejected without crashing the server.
//
// Valid traffic of the logical database harness (so that there is stored data
// and there are locks to leak) is interleaved with malformed requests of five
// kinds: damaged roaring import payloads, arbitrary PQL text, internal cluster
// messages, import requests whose parts do not fit together, and damaged
// fragment files that are reopened. Every byte of a malformed request is a
// function of the op's I/S, so plans replay.
//
// Oracle: the process survives (a dead child is class "crash"); a panic on the
// path gossip uses to deliver cluster messages (API.ClusterMessage called
// directly, no recover above it) is class "gossip-panic"; a panic that
// Handler.ServeHTTP recovered (HTTP 500 "PANIC") only counts a probe; a request
// that never returns leaves the run stuck (class "stuck"); after every
// malformed request model-checked queries and a valid write+read on the same
// field follow, so changed data shows as "row"/"count"/... and a leaked lock
// as "stuck". Accepting a malformed request is allowed: the model then no
// longer knows the field, so the field is dropped and created again (known
// contents: empty) and, where the request may have touched the existence
// field, Not() queries are no longer judged.

import (
	"bytes"
	"context"
	"encoding/binary"
	"fmt"
	"io"
	gohttp "net/http"
	"os"
	"path/filepath"
	"runtime/debug"
	"sort"
	"strings"
	"time"

	"github.com/pilosa/pilosa"
	"github.com/pilosa/pilosa/encoding/proto"
	"github.com/pilosa/pilosa/roaring"
	"verif/simrt"
)

func init() {
	simrt.Register(&simrt.Prop{ID: "C06", Gen: genC06, Exec: execDBOpt(dbOpts{extra: c06Extra})})
}

type c06State struct {
	done          bool            // damaged storage was opened / a state-changing message was delivered: the model is void
	existsTainted map[string]bool // index -> the existence field may hold columns the model does not know
	lastBad       []string        // the malformed requests so far and what became of them
}

func c06st(d *db) *c06State {
	if st, ok := d.aux.(*c06State); ok {
		return st
	}
	st := &c06State{existsTainted: map[string]bool{}}
	d.aux = st
	// every later mismatch names the malformed request that preceded it
	d.onQuery = func(string) {
		if len(st.lastBad) > 0 && !strings.Contains(d.last, "[malformed requests so far") {
			h := st.lastBad
			if len(h) > 6 {
				h = h[len(h)-6:]
			}
			d.last += " [malformed requests so far: " + strings.Join(h, "; ") + "]"
		}
	}
	return st
}

// ---- transport helpers -----------------------------------------------------------

func c06Post(d *db, nd *simNode, path, ctype, accept string, body []byte) (int, string, error) {
	hc := &gohttp.Client{Transport: d.cl.net.Transport("client")}
	req, err := gohttp.NewRequest("POST", "http://"+nd.host+path, bytes.NewReader(body))
	if err != nil {
		return 0, "", err
	}
	if ctype != "" {
		req.Header.Set("Content-Type", ctype)
	}
	if accept != "" {
		req.Header.Set("Accept", accept)
	}
	resp, err := hc.Do(req)
	if err != nil {
		return 0, "", err
	}
	defer resp.Body.Close()
	b, _ := io.ReadAll(resp.Body)
	return resp.StatusCode, string(b), nil
}

// c06Outcome classifies an HTTP answer: "accepted" or "rejected". A panic
// recovered by the handler is a rejection and is counted.
func c06Outcome(d *db, kind string, status int, body string) string {
	if os.Getenv("C06_DEBUG") != "" {
		fmt.Fprintf(os.Stderr, "C06DEBUG %s: %d %q\n", kind, status, clip200(body))
	}
	if status >= 500 && strings.Contains(body, "PANIC") {
		d.c.Probe("recovered-panic:" + kind)
		return "rejected"
	}
	if status >= 200 && status < 300 {
		d.c.Probe("accepted:" + kind)
		return "accepted"
	}
	d.c.Probe("rejected:" + kind)
	return "rejected"
}

func c06Stack() string {
	var keep []string
	for _, l := range strings.Split(string(debug.Stack()), "\n") {
		if strings.HasPrefix(l, "goroutine ") || strings.Contains(l, "/simrt/") || strings.Contains(l, "runtime/") || strings.Contains(l, "zz_verif") || strings.HasPrefix(l, "panic(") || strings.Contains(l, "pilosa_test.") {
			continue
		}
		keep = append(keep, l)
		if len(keep) >= 16 {
			break
		}
	}
	return strings.Join(keep, "\n")
}

// c06Recreate drops and recreates a field whose contents the model no longer
// knows (a malformed write was accepted); afterwards it is empty on both sides.
func c06Recreate(d *db, index, field string) {
	_, f := d.lookup([]string{index, field})
	if f == nil {
		return
	}
	ct := map[string]int64{pilosa.CacheTypeRanked: 0, pilosa.CacheTypeLRU: 1, pilosa.CacheTypeNone: 2}[f.cacheType]
	noStd := int64(0)
	if f.noStd {
		noStd = 1
	}
	was := d.last
	d.apply(simrt.Op{K: "rmfield", S: []string{index, field}, I: []int64{0}})
	if d.c.Failed() {
		return
	}
	d.apply(simrt.Op{K: "mkfield", S: []string{index, field, f.typ, f.quantum}, I: []int64{f.min, f.max, ct, int64(f.cacheSize), noStd, 0}})
	d.last = was + " +recreated " + field
	d.c.Probe("field-recreated")
}

func le16(b []byte, off int) int {
	if off < 0 || off+2 > len(b) {
		return 0
	}
	return int(binary.LittleEndian.Uint16(b[off:]))
}
func put16(b []byte, off int, v int) {
	if off >= 0 && off+2 <= len(b) {
		binary.LittleEndian.PutUint16(b[off:], uint16(v))
	}
}
func put32(b []byte, off int, v uint32) {
	if off >= 0 && off+4 <= len(b) {
		binary.LittleEndian.PutUint32(b[off:], v)
	}
}

func c06Garbage(r *simrt.Rand, n int) []byte {
	b := make([]byte, n)
	for i := range b {
		b[i] = byte(r.Uint64())
	}
	return b
}

// ---- 1. roaring payloads -----------------------------------------------------------

// c06Encode encodes positions in one of six ways.
func c06Encode(vals []uint64, enc int64) []byte {
	switch enc {
	case 1:
		return simrt.EncodeOfficial(vals, false, nil)
	case 2:
		return simrt.EncodeOfficial(vals, true, nil)
	case 3:
		return simrt.EncodePilosa(vals, 0, func(uint64, int, int) simrt.ContainerKind { return simrt.KindBitmap })
	case 4:
		return simrt.EncodePilosa(vals, 0, func(uint64, int, int) simrt.ContainerKind { return simrt.KindRun })
	case 5:
		return simrt.EncodeOfficial(vals, true, func(uint64, int, int) bool { return true })
	}
	return simrt.EncodePilosa(vals, 0, nil)
}

// c06Layout describes where the parts of an encoding are.
type c06Layout struct {
	n        int // containers
	hdr      int // offset of the first descriptive header
	hdrSize  int // 12 (pilosa) or 4 (official)
	offs     int // offset of the offset table, -1 if there is none
	data     int // offset of the first container's data
	pilosa   bool
	official bool
	runs     bool
}

func c06LayoutOf(b []byte, enc int64) c06Layout {
	switch enc {
	case 1:
		n := int(binary.LittleEndian.Uint32(b[4:]))
		return c06Layout{n: n, hdr: 8, hdrSize: 4, offs: 8 + 4*n, data: 8 + 8*n, official: true}
	case 2, 5:
		n := le16(b, 2) + 1
		h := 4 + (n+7)/8
		l := c06Layout{n: n, hdr: h, hdrSize: 4, offs: -1, data: h + 4*n, official: true, runs: true}
		if n >= 4 {
			l.offs = h + 4*n
			l.data = h + 8*n
		}
		return l
	}
	n := int(binary.LittleEndian.Uint32(b[4:]))
	return c06Layout{n: n, hdr: 8, hdrSize: 12, offs: 8 + 12*n, data: 8 + 16*n, pilosa: true}
}

// c06Damage returns a damaged copy of a valid encoding.
func c06Damage(base []byte, enc, variant, sub int64, r *simrt.Rand) []byte {
	b := append([]byte(nil), base...)
	l := c06LayoutOf(b, enc)
	ci := r.Intn(l.n)
	flip := func(lo, hi int) {
		if hi > len(b) {
			hi = len(b)
		}
		if hi <= lo {
			lo, hi = 0, len(b)
		}
		for k := 1 + r.Intn(4); k > 0 && hi > lo; k-- {
			b[lo+r.Intn(hi-lo)] ^= byte(1 + r.Intn(255))
		}
	}
	switch variant {
	case 0: // truncation
		switch sub {
		case 1:
			return b[:1]
		case 2:
			return b[:0]
		case 3:
			return b[:2+r.Intn(6)]
		case 4:
			return b[:8]
		case 5:
			return b[:len(b)-1]
		case 6:
			if l.offs > 0 && l.offs+1 < len(b) {
				return b[:l.offs+1+r.Intn(4*l.n-1)]
			}
			return b[:l.data]
		case 7:
			return b[:l.data+r.Intn(len(b)-l.data+1)]
		}
		return b[:r.Intn(len(b)+1)]
	case 1: // container count inflated
		if l.runs {
			put16(b, 2, []int{l.n, l.n + 7, 0xffff, 0xfffe, 4}[sub%5])
			return b
		}
		put32(b, 4, []uint32{uint32(l.n) + 1, uint32(l.n) + 1000, 0x7fffffff, 0xffffffff, 65537}[sub%5])
	case 2: // offsets out of range
		if l.offs < 0 {
			flip(0, l.data)
			return b
		}
		put32(b, l.offs+4*ci, []uint32{uint32(len(b)), uint32(len(b)) + 1, 0xffffffff, uint32(len(b)) - 1, 0, 7, 0xfffffffe, uint32(len(b)) - 2}[sub%8])
	case 3: // container type
		if l.pilosa {
			put16(b, l.hdr+12*ci+8, []int{0, 4, 255, 3, 2, 1, 0xffff}[sub%7])
			return b
		}
		if l.runs {
			b[4+ci/8] ^= 1 << uint(ci%8)
			return b
		}
		put16(b, l.hdr+4*ci+2, 0xffff) // official without runs: the cardinality decides the type
	case 4: // cardinality
		off := l.hdr + l.hdrSize*ci + l.hdrSize - 2
		n := le16(b, off)
		put16(b, off, []int{0xffff, 0, n + 1, n - 1, 4095, 4096}[sub%6])
	case 5: // magic, version, flags
		switch sub % 7 {
		case 0:
			put16(b, 0, int(r.Uint64()))
		case 1:
			put16(b, 0, 12349)
		case 2:
			b[2] = 1
		case 3:
			b[2] = 255
		case 4:
			put16(b, 0, 12345)
		case 5:
			put16(b, 0, 0)
		case 6:
			b[3] = 0xff
		}
	case 6: // byte flips
		switch sub % 3 {
		case 1:
			flip(0, l.data)
		case 2:
			flip(l.data, len(b))
		default:
			flip(0, len(b))
		}
	case 7: // official header with the run cookie and little else
		h := make([]byte, 4)
		put16(h, 0, 12347)
		put16(h, 2, l.n-1)
		switch sub % 6 {
		case 0:
			return h
		case 1:
			return append(h, make([]byte, ((l.n+7)/8)/2)...)
		case 2:
			put16(h, 2, 0xffff)
			return h
		case 3:
			rb := bytes.Repeat([]byte{0xff}, (l.n+7)/8)
			return append(h, rb...)
		case 4:
			return append(h, 0, 0, 0, 0)
		default:
			put16(h, 2, 0xffff)
			return append(h, bytes.Repeat([]byte{0xff}, 8192)...)
		}
	case 8: // run containers (enc 4 or 5): run count and run bounds
		off := l.data
		if l.offs >= 0 {
			off = int(binary.LittleEndian.Uint32(b[l.offs+4*ci:]))
		}
		switch sub % 4 {
		case 0:
			put16(b, off, 0)
		case 1:
			put16(b, off, 0xffff)
		case 2:
			put16(b, off+2, 0xfff0) // start beyond last
		default:
			put16(b, off, le16(b, off)+1)
		}
	case 9: // structure
		switch sub % 4 {
		case 0:
			return append(b, c06Garbage(r, 1+r.Intn(16))...)
		case 1: // keys out of order
			if l.n >= 2 {
				h0, h1 := l.hdr, l.hdr+l.hdrSize
				k := 2
				if l.pilosa {
					k = 8
				}
				t := append([]byte(nil), b[h0:h0+k]...)
				copy(b[h0:h0+k], b[h1:h1+k])
				copy(b[h1:h1+k], t)
			} else {
				flip(l.hdr, l.hdr+2)
			}
		case 2: // duplicate key
			if l.n >= 2 {
				k := 2
				if l.pilosa {
					k = 8
				}
				copy(b[l.hdr+l.hdrSize:l.hdr+l.hdrSize+k], b[l.hdr:l.hdr+k])
			} else {
				flip(l.hdr, l.hdr+2)
			}
		default: // pilosa: a key far beyond any row of the shard
			if l.pilosa {
				b[l.hdr+12*ci+6] = 0x40
			} else {
				flip(l.hdr, l.data)
			}
		}
	case 10: // arbitrary bytes
		switch sub % 3 {
		case 0:
			return c06Garbage(r, r.Intn(65))
		case 1:
			return append(append([]byte(nil), b[:4]...), c06Garbage(r, r.Intn(60))...)
		default:
			return append(append([]byte(nil), b[:8]...), c06Garbage(r, r.Intn(60))...)
		}
	}
	return b
}

// badroaring: S=[index,field,view] I=[variant,sub,seed,enc,node,path,clear,(row,col)*]
// path 0 = HTTP route, 1 = HTTP route with remote=true, 2 = API.ImportRoaring directly.
func c06BadRoaring(d *db, op simrt.Op) {
	S, I := op.S, op.I
	ix, f := d.lookup(S)
	if f == nil || (f.typ != "set" && f.typ != "time") || len(I) < 9 {
		return
	}
	variant, sub, seed, enc, path, clear := I[0], I[1], I[2], I[3], I[5], I[6] != 0
	nd := d.cl.nodes[d.node(I[4])]
	shard := uint64(I[8]) / pilosa.ShardWidth
	var vals []uint64
	for i := 7; i+1 < len(I); i += 2 {
		r, c := uint64(I[i]), uint64(I[i+1])
		if c/pilosa.ShardWidth == shard {
			vals = append(vals, r*pilosa.ShardWidth+c%pilosa.ShardWidth)
		}
	}
	base := c06Encode(vals, enc)
	payload := c06Damage(base, enc, variant, sub, simrt.NewRand(uint64(seed)))
	view := S[2]
	if f.typ != "time" {
		view = ""
	}
	// "whole": damage that is refused (or accepted) before any container is touched;
	// "deep": damage the decoder meets while it is already merging containers
	depth := "deep"
	for _, vs := range c06SafeRoaring {
		if vs[0] == variant && vs[1] == sub {
			depth = "whole"
		}
	}
	what := fmt.Sprintf("badroaring(v%d.%d %s enc%d %s/%s view %q shard %d path %d clear=%v, %d of %d bytes)", variant, sub, depth, enc, ix.name, f.name, view, shard, path, clear, len(payload), len(base))
	d.last = what
	d.c.Logf("C06 %s", what)
	// exactly as long as it says: a caller's 1-byte slice has capacity 1
	payload = append(make([]byte, 0, len(payload)), payload...)
	req := &pilosa.ImportRoaringRequest{Clear: clear, Views: map[string][]byte{view: payload}}
	outcome := ""
	if path == 2 {
		var err error
		func() {
			defer func() {
				if rec := recover(); rec != nil {
					// the same panic on the HTTP route would be recovered by the handler
					d.c.Probe("recovered-panic:badroaring-api")
					err = fmt.Errorf("panic: %v", rec)
				}
			}()
			err = nd.api.ImportRoaring(context.Background(), ix.name, f.name, shard, false, req)
		}()
		if err == nil {
			outcome = "accepted"
			d.c.Probe("accepted:badroaring")
		} else {
			outcome = "rejected"
			d.c.Probe("rejected:badroaring")
		}
	} else {
		body, err := proto.Serializer{}.Marshal(req)
		if err != nil {
			d.c.Fail("harness", "marshal ImportRoaringRequest: %v", err)
			return
		}
		p := fmt.Sprintf("/index/%s/field/%s/import-roaring/%d", ix.name, f.name, shard)
		if path == 1 {
			p += "?remote=true"
		}
		status, rb, err := c06Post(d, nd, p, "application/x-protobuf", "application/x-protobuf", body)
		if err != nil {
			d.c.Fail("harness", "%s: transport: %v", what, err)
			return
		}
		outcome = c06Outcome(d, "badroaring", status, rb)
	}
	d.last = what + " " + outcome
	c06st(d).lastBad = append(c06st(d).lastBad, d.last)
	d.c.Logf("C06 -> %s", outcome)
	d.c.Probe(fmt.Sprintf("badroaring:v%d", variant))
	if outcome == "accepted" {
		c06Recreate(d, ix.name, f.name)
	}
}

// ---- 2. query text ---------------------------------------------------------------

func c06Nest(call string, n int, leaf string, closeIt bool) string {
	var sb strings.Builder
	for i := 0; i < n; i++ {
		sb.WriteString(call + "(")
	}
	sb.WriteString(leaf)
	if closeIt {
		sb.WriteString(strings.Repeat(")", n))
	}
	return sb.String()
}

// c06Query builds the text of a malformed query. fl = names of a set, int,
// time, bool and mutex field ("" replaced by a name that does not exist).
// write reports whether the text has the form of a write.
func c06Query(variant, sub int64, r *simrt.Rand, fl []string, col uint64) (q string, write bool) {
	for len(fl) < 5 {
		fl = append(fl, "")
	}
	for i := range fl {
		if fl[i] == "" {
			fl[i] = "nosuch"
		}
	}
	// (no call names two different fields: the executor would pick one by map order and the run would not replay)
	fs, fi, ft, fb, fm := fl[0], fl[1], fl[2], fl[3], fl[4]
	pick := func(xs ...string) string { return xs[int(sub)%len(xs)] }
	switch variant {
	case 0:
		return string(c06Garbage(r, 1+r.Intn(200))), false
	case 1:
		toks := []string{"Row", "Union", "Set", "(", ")", "=", ",", "<", ">", "!", "[", "]", "'", "\"", "1", "-", fs, fi, " ", "\n", "Count", "TopN", "null", "true", ".", "><", "=="}
		var sb strings.Builder
		for k := 1 + r.Intn(40); k > 0; k-- {
			sb.WriteString(toks[r.Intn(len(toks))])
		}
		return sb.String(), false
	case 2:
		return pick("Union(Row("+fs+"=1)", "Row("+fs+"=1))", "((((((((", "))))", "Row("+fs+"=1", "Row"+fs+"=1)", "Union(Row("+fs+"=1),", "Count(Row("+fs+"=1)))(", "Row("+fs+"=[1,2)", "Row("+fs+"='abc)", "Row("+fs+"=\"abc)"), false
	case 3:
		n := []int{200, 600, 2500, 3300}[r.Intn(4)]
		switch sub % 4 {
		case 0:
			return c06Nest("Union", n, "Row("+fs+"=1)", true), false
		case 1:
			return c06Nest("Union", n, "", false), false
		case 2:
			return c06Nest("Not", n/2, "Row("+fs+"=1)", true), false
		default:
			return c06Nest("Count", n/4, "Row("+fs+"=1)", true), false
		}
	case 4:
		return pick("Row("+fs+"=99999999999999999999999)", "Row("+fs+"=18446744073709551616)", "Row("+fs+"=-9223372036854775809)", "Row("+fi+" > 99999999999999999999999999)", "Row("+fi+" == -99999999999999999999999999)",
			"TopN("+fs+", n=99999999999999999999)", "Row("+fi+" >< [-99999999999999999999, 99999999999999999999])", "Rows(field="+fs+", limit=18446744073709551616)", "Row("+fs+"=1e400)", "Row("+fi+" > 1.5e308)", "Shift(Row("+fs+"=1), n=9223372036854775808)",
			"Row("+fs+"=9223372036854775807)", "Row("+fs+"=18446744073709551615)", "Row("+fi+" < 9223372036854775807)", "Row("+fi+" > -9223372036854775808)"), false
	case 5:
		return pick("Row("+fs+"=\xff\xfe)", "Row(\xc3\x28=1)", "Row("+fs+"='abc\x80')", "Row("+fs+"=\"\xed\xa0\x80\")", "\xef\xbb\xbfRow("+fs+"=1)", "Row("+fs+"=1)\x00", "Ro\xc0\xafw("+fs+"=1)", "Row("+fs+"=1, from='\xff')"), false
	case 6:
		return pick("Frobnicate("+fs+"=1)", "row("+fs+"=1)", "Union(Nope())", "ROW("+fs+"=1)", "Count(Nope("+fs+"=1))", "_("+fs+"=1)", "Bitmap("+fs+"=1)", "Row("+fs+"=1) Nope()"), false
	case 7:
		return pick("Set()", "Set(1)", "Set("+fs+"=1)", "Set(1, 2)", "Clear()", "Clear(1)", "Set(,)", "SetRowAttrs()", "SetColumnAttrs()", "Store()", "Store(Row("+fs+"=1))", "ClearRow()", "SetRowAttrs("+fs+")", "SetRowAttrs("+fs+", 1)", "SetColumnAttrs(1)", "Set(1, "+fs+"=)", "Set(1, =1)", "Clear(1, "+fs+")"), false
	case 8:
		return pick("Row("+fs+"=\"x\")", "Row("+fs+"=1.5)", "Row("+fs+"=true)", "Row("+fs+"=null)", "Row("+fs+"=[1,2])", "Row("+fs+"=-1)", "Row()", "Row("+fs+"=1, "+fs+"=2)", "Row("+fi+" == \"x\")", "Row("+fi+" >< [1])", "Row("+fi+" >< [1,2,3])", "Row("+fi+" >< 5)",
			"Row("+fi+" >< [\"a\",\"b\"])", "Row("+fi+"=5)", "Row("+fs+" > 5)", "Row("+fb+"=7)", "Row("+fb+"=\"yes\")", "Row("+fi+" != 5.5)", "Row("+fi+" == null)", "Row("+fi+" > null)", "Row("+fi+" >< [5, 1])", "Row(nosuch=1)", "Row(nosuch > 1)", "Row("+fi+" == true)"), false
	case 9:
		return pick("TopN(n=-1)", "TopN("+fs+", n=-1)", "TopN()", "TopN(nosuch)", "TopN("+fs+", ids=[\"a\"])", "TopN("+fs+", threshold=-1)", "TopN("+fs+", attrName=\"x\")", "TopN("+fs+", Row(), n=1)", "TopN("+fi+")", "TopN("+fs+", n=\"x\")", "TopN("+fs+", ids=5)",
			"TopN("+fs+", Row("+fs+"=1), Row("+fs+"=2))", "TopN("+fs+", attrName=\"x\", attrValues=5)", "TopN("+fs+", tanimotoThreshold=200, Row("+fs+"=1))", "TopN("+fs+", tanimotoThreshold=50)", "TopN("+fb+", n=1)", "TopN("+ft+", n=1)", "TopN("+fs+", ids=[-1])"), false
	case 10:
		return pick("Rows(limit=-1)", "Rows()", "Rows(field=nosuch)", "Rows(field="+fs+", previous=-1)", "Rows(field="+fs+", column=-1)", "Rows(field="+fi+")", "Rows(field="+fs+", limit=\"x\")", "Rows(field="+fs+", previous=\"k\")", "Rows(field="+fs+", limit=-1)",
			"Rows("+fs+")", "Rows(field=5)", "Rows(field="+fs+", column=\"c\")", "Rows(field="+ft+", from='x')", "Rows(field="+ft+", from='2019-01-01T00:00', to='2018-01-01T00:00')", "Rows(field="+fs+", from='2018-01-01T00:00', to='2019-01-01T00:00')", "Rows(field="+fs+", limit=0)"), false
	case 11:
		return pick("Shift(Row("+fs+"=1), n=-1)", "Shift()", "Shift(Row("+fs+"=1), n=\"x\")", "Shift(Row("+fs+"=1), n=99999999999)", "Shift(Row("+fs+"=1), Row("+fs+"=2))", "Shift(n=1)", "Shift(Row("+fs+"=1), n=1.5)", "Shift(5, n=1)", "Shift(Rows(field="+fs+"), n=1)"), false
	case 12:
		return pick("GroupBy(Row("+fs+"=1))", "GroupBy()", "GroupBy(Rows(field="+fs+"), limit=-1)", "GroupBy(Rows(field="+fs+"), filter=Rows(field="+fs+"))", "GroupBy(Rows(field="+fs+"), filter=5)", "GroupBy(Rows(field="+fs+"), previous=[1,2])", "GroupBy(Rows(field=nosuch))",
			"GroupBy(Rows(field="+fs+"), Row("+fs+"=1))", "GroupBy(Rows(field="+fs+"), offset=-1)", "GroupBy(Rows(field="+fi+"))", "GroupBy(Rows(field="+fs+"), previous=[\"a\"])", "GroupBy(Rows(field="+fs+"), limit=\"x\")", "GroupBy(Rows(field="+fs+"), filter=Count(Row("+fs+"=1)))", "GroupBy(Rows(field="+fs+", limit=-1))", "GroupBy(Rows(field="+fs+"), previous=5)"), false
	case 13:
		return pick("Row("+ft+"=1, from='notadate', to='2019-01-01T00:00')", "Row("+ft+"=1, from='2019-13-45T99:99')", "Row("+ft+"=1, from=5)", "Range("+ft+"=1, 'x', 'y')", "Range("+ft+"=1, 2018-01-01T00:00, 2017-01-01T00:00)", "Row("+ft+"=1, from='9999-99-99T00:00')",
			"Row("+fs+"=1, from='2018-01-01T00:00', to='2019-01-01T00:00')", "Range("+fi+" > 5, 2018-01-01T00:00, 2019-01-01T00:00)", "Range()", "Range("+ft+"=1)", "Row("+ft+"=1, to='')", "Row("+ft+"=1, from='2018-01-01T00:00', to='0000-00-00T00:00')", "Row("+ft+"=1, from=true)", "Range("+ft+"=1, 2018-01-01T00:00)",
			"Row("+ft+"=1, from='2019-01-01T00:00', to='2018-01-01T00:00')", "Row("+ft+"=1, from='0001-01-01T00:00', to='9999-12-31T23:59')", "Range("+ft+"=1, 0000-01-01T00:00, 9999-12-31T23:59)"), false
	case 14:
		return pick("Sum()", "Sum(field=nosuch)", "Sum(field="+fs+")", "Min(field=)", "Sum(Row(), field="+fi+")", "Sum(5, field="+fi+")", "Count()", "Count(1)", "Count(Row("+fs+"=1), Row("+fs+"=2))", "Count(Sum(field="+fi+"))", "Not()", "Not(Row("+fs+"=1), Row("+fs+"=2))", "Not(5)",
			"Union(5)", "Union(Sum(field="+fi+"))", "Intersect()", "Difference()", "Xor(1)", "Options()", "Options(Row("+fs+"=1), shards=\"x\")", "Options(Row("+fs+"=1), shards=[-1])", "MinRow()", "MaxRow(field="+fi+")", "Max(field="+fb+")", "Min(Rows(field="+fs+"), field="+fi+")",
			"Union(Rows(field="+fs+"))", "Intersect(Count(Row("+fs+"=1)))", "Count(Rows(field="+fs+"))", "Count(TopN("+fs+"))", "Options(Row("+fs+"=1), Row("+fs+"=2))", "Options(Row("+fs+"=1), columnAttrs=5)", "Union(Set(1, "+fs+"=1))", "Sum(field="+fi+", field="+fi+")", "MinRow(field=nosuch)", "Sum(Row("+fi+" > \"x\"), field="+fi+")"), false
	}
	// 15: writes that must be refused, on a column nothing else writes
	c := fmt.Sprint(col)
	return pick("Set("+c+", "+fs+"=-1)", "Set("+c+", "+fs+"=\"k\")", "Set("+c+", "+fi+"=4611686018427387905)", "Set("+c+", "+ft+"=1, 2018-13-45T99:99)", "Set("+c+", "+fb+"=5)", "Set("+c+", "+fs+"=1.5)", "Set("+c+", nosuch=1)", "Set("+c+", "+fi+"=\"x\")",
		"Set(\"colkey\", "+fs+"=1)", "Set(-1, "+fs+"=1)", "Clear("+c+", "+fs+"=\"x\")", "Clear("+c+", nosuch=1)", "Clear("+c+", "+fi+"=1)", "SetRowAttrs("+fs+", \"x\", a=1)", "SetRowAttrs(nosuch, 1, a=1)", "SetColumnAttrs(\"x\", a=1)", "Store(Row("+fs+"=1), "+fi+"=1)",
		"ClearRow("+fi+"=1)", "ClearRow(nosuch=1)", "Set("+c+", "+fs+"=true)", "Set("+c+", "+fi+"=-4611686018427387905)", "Set("+c+", "+fm+"=-5)", "Set("+c+", "+fs+"=1, "+fs+"=2)", "Set("+c+", "+fs+"=null)", "Store(Rows(field="+fs+"), "+fs+"=1)", "Store(5, "+fs+"=1)",
		"Set("+c+", "+ft+"=1, 0000-00-00T00:00)", "Set("+c+", "+fi+"=1.5)", "Set("+c+", "+fb+"=\"true\")", "Clear("+c+", "+fb+"=9)", "Set("+c+", "+fs+"=18446744073709551616)"), true
}

// badquery: S=[index,set,int,time,bool,mutex] I=[variant,sub,seed,node,mode,col]; mode 0 = protobuf client, 1 = raw text body.
func c06BadQuery(d *db, op simrt.Op) {
	S, I := op.S, op.I
	ix := d.m.idx[S[0]]
	if ix == nil || len(I) < 6 {
		return
	}
	var fl []string
	for _, n := range S[1:] {
		if ix.fields[n] == nil {
			n = ""
		}
		fl = append(fl, n)
	}
	q, write := c06Query(I[0], I[1], simrt.NewRand(uint64(I[2])), fl, uint64(I[5]))
	if len(q) > 20000 {
		q = q[:20000]
	}
	node := d.node(I[3])
	what := fmt.Sprintf("badquery(v%d.%d mode %d node %d %q)", I[0], I[1], I[4], node, clip200(q))
	d.last = what
	d.c.Logf("C06 badquery v%d.%d mode %d node %d len %d", I[0], I[1], I[4], node, len(q))
	outcome := "rejected"
	if I[4] == 0 {
		_, err := d.cl.query(node, ix.name, q)
		switch {
		case err == nil:
			outcome = "accepted"
			d.c.Probe("accepted:badquery")
		case strings.Contains(err.Error(), "PANIC"):
			d.c.Probe("recovered-panic:badquery")
		case strings.Contains(err.Error(), "simnet"):
			d.c.Fail("harness", "%s: transport: %v", what, err)
			return
		default:
			d.c.Probe("rejected:badquery")
		}
	} else {
		status, rb, err := c06Post(d, d.cl.nodes[node], "/index/"+ix.name+"/query", "", "application/json", []byte(q))
		if err != nil {
			d.c.Fail("harness", "%s: transport: %v", what, err)
			return
		}
		outcome = c06Outcome(d, "badquery", status, rb)
	}
	d.last = what + " " + outcome
	c06st(d).lastBad = append(c06st(d).lastBad, d.last)
	d.c.Logf("C06 -> %s", outcome)
	d.c.Probe(fmt.Sprintf("badquery:v%d", I[0]))
	if write && outcome == "accepted" {
		// a write nobody modelled went through: forget what it may have touched
		for _, n := range fl {
			if n != "" {
				c06Recreate(d, ix.name, n)
			}
		}
		c06st(d).existsTainted[ix.name] = true
	}
}

func clip200(s string) string {
	if len(s) > 200 {
		return s[:200] + "…"
	}
	return s
}

// ---- 3. cluster messages -----------------------------------------------------------

var c06MsgTypes = []func() pilosa.Message{
	func() pilosa.Message { return &pilosa.CreateShardMessage{} }, func() pilosa.Message { return &pilosa.CreateIndexMessage{} },
	func() pilosa.Message { return &pilosa.DeleteIndexMessage{} }, func() pilosa.Message { return &pilosa.CreateFieldMessage{} },
	func() pilosa.Message { return &pilosa.DeleteFieldMessage{} }, func() pilosa.Message { return &pilosa.CreateViewMessage{} },
	func() pilosa.Message { return &pilosa.DeleteViewMessage{} }, func() pilosa.Message { return &pilosa.ClusterStatus{} },
	func() pilosa.Message { return &pilosa.ResizeInstruction{} }, func() pilosa.Message { return &pilosa.ResizeInstructionComplete{} },
	func() pilosa.Message { return &pilosa.SetCoordinatorMessage{} }, func() pilosa.Message { return &pilosa.UpdateCoordinatorMessage{} },
	func() pilosa.Message { return &pilosa.NodeStateMessage{} }, func() pilosa.Message { return &pilosa.RecalculateCaches{} },
	func() pilosa.Message { return &pilosa.NodeEvent{} }, func() pilosa.Message { return &pilosa.NodeStatus{} },
	func() pilosa.Message { return &pilosa.DeleteAvailableShardMessage{} },
}

const c06NTypes = 17 // message types 0..16

// c06Msg returns a well-formed message of type t that refers only to things
// that do not exist (alt selects a second flavour).
func c06Msg(t int, index string, alt bool) pilosa.Message {
	ghost := &pilosa.Node{ID: "ghost", URI: pilosa.URI{Scheme: "http", Host: "ghost", Port: 1}}
	idx := index
	if alt {
		idx = "nosuchidx"
	}
	switch t {
	case 0:
		return &pilosa.CreateShardMessage{Index: idx, Field: "nosuch", Shard: 3}
	case 1:
		return &pilosa.CreateIndexMessage{Index: "Bad Name!", Meta: &pilosa.IndexOptions{}}
	case 2:
		return &pilosa.DeleteIndexMessage{Index: "nosuchidx"}
	case 3:
		return &pilosa.CreateFieldMessage{Index: "nosuchidx", Field: "x", Meta: &pilosa.FieldOptions{Type: pilosa.FieldTypeSet, CacheType: pilosa.CacheTypeRanked, CacheSize: 10}}
	case 4:
		return &pilosa.DeleteFieldMessage{Index: idx, Field: "nosuch"}
	case 5:
		return &pilosa.CreateViewMessage{Index: idx, Field: "nosuch", View: "standard"}
	case 6:
		return &pilosa.DeleteViewMessage{Index: idx, Field: "nosuch", View: "standard"}
	case 9:
		m := &pilosa.ResizeInstructionComplete{JobID: 4242, Node: ghost}
		if alt {
			m.Error = "boom"
		}
		return m
	case 12:
		return &pilosa.NodeStateMessage{NodeID: "ghost", State: "READY"}
	case 13:
		return &pilosa.RecalculateCaches{}
	case 14:
		return &pilosa.NodeEvent{Event: pilosa.NodeUpdate, Node: ghost}
	case 16:
		return &pilosa.DeleteAvailableShardMessage{Index: idx, Field: "nosuch", ShardID: 3}
	case 15:
		return &pilosa.NodeStatus{Node: ghost, Schema: &pilosa.Schema{}, Indexes: []*pilosa.IndexStatus{{Name: idx, Fields: []*pilosa.FieldStatus{{Name: "nosuch", AvailableShards: roaring.NewBitmap(1, 2)}}}}}
	}
	// 7, 8, 10, 11 change membership by design; stand-in: a message about a non-member
	return &pilosa.NodeStateMessage{NodeID: "ghost", State: "READY"}
}

// c06Harmless reports whether a message that decodes can only refer to things
// that do not exist (so that delivering it must leave data and membership alone).
func c06Harmless(d *db, m pilosa.Message) bool {
	has := func(index, field string) bool {
		ix := d.m.idx[index]
		return ix != nil && (field == "" || ix.fields[field] != nil)
	}
	switch x := m.(type) {
	case *pilosa.CreateShardMessage:
		return !has(x.Index, x.Field) || x.Field == ""
	case *pilosa.CreateIndexMessage:
		return !has(x.Index, "")
	case *pilosa.DeleteIndexMessage:
		return !has(x.Index, "")
	case *pilosa.CreateFieldMessage:
		return !has(x.Index, "")
	case *pilosa.DeleteFieldMessage:
		return x.Field == "" || !has(x.Index, x.Field)
	case *pilosa.CreateViewMessage:
		return x.Field == "" || !has(x.Index, x.Field)
	case *pilosa.DeleteViewMessage:
		return x.Field == "" || !has(x.Index, x.Field)
	case *pilosa.DeleteAvailableShardMessage:
		return x.Field == "" || !has(x.Index, x.Field)
	case *pilosa.ResizeInstructionComplete:
		return true // no resize job ever runs in these plans
	case *pilosa.NodeStateMessage:
		for _, nd := range d.cl.nodes {
			if nd.id == x.NodeID {
				return false
			}
		}
		return true
	case *pilosa.RecalculateCaches:
		return true
	case *pilosa.NodeEvent:
		return x.Event == pilosa.NodeUpdate
	case *pilosa.NodeStatus:
		if x.Schema != nil && len(x.Schema.Indexes) > 0 {
			return false
		}
		for _, is := range x.Indexes {
			for _, fs := range is.Fields {
				if has(is.Name, fs.Name) {
					return false
				}
			}
		}
		return true
	}
	return false // ClusterStatus, ResizeInstruction, coordinator changes
}

// badmessage: S=[index] I=[variant,sub,seed,node,path,terminal]; path 0 = HTTP route, 1 = API.ClusterMessage as gossip calls it.
func c06BadMessage(d *db, op simrt.Op) {
	S, I := op.S, op.I
	if len(I) < 6 {
		return
	}
	st := c06st(d)
	variant, sub, path, terminal := I[0], int(I[1]), I[4], I[5] != 0
	r := simrt.NewRand(uint64(I[2]))
	nd := d.cl.nodes[d.node(I[3])]
	ser := proto.Serializer{}
	enc := func(m pilosa.Message) []byte {
		b, err := ser.Marshal(m)
		if err != nil {
			return nil
		}
		return b
	}
	var b []byte
	switch variant {
	case 0: // empty body
	case 1: // a type byte and nothing else
		b = []byte{byte(sub)}
	case 2: // type byte + garbage
		b = append([]byte{byte(sub)}, c06Garbage(r, 1+r.Intn(40))...)
	case 3: // type byte + truncated encoding of a message of that type
		e := enc(c06Msg((sub&0xff)%c06NTypes, S[0], r.Bool(0.5)))
		if len(e) > 1 {
			e = e[:1+r.Intn(len(e)-1)]
		}
		b = append([]byte{byte((sub & 0xff) % c06NTypes)}, e...)
	case 4: // a message of type sub&0xff under the byte of type sub>>8
		b = append([]byte{byte(sub >> 8)}, enc(c06Msg((sub&0xff)%c06NTypes, S[0], r.Bool(0.5)))...)
	case 6: // a resize instruction for a job nobody runs, one of whose sources names no node; its
		// cluster status is the current one, so following it changes nothing
		co := d.cl.coordinator()
		var members []*pilosa.Node
		for _, n := range d.cl.nodes {
			if n.opened && !n.gone {
				members = append(members, n.node())
			}
		}
		instr := &pilosa.ResizeInstruction{JobID: 777, Node: nd.node(), Coordinator: co.node(),
			Sources:       []*pilosa.ResizeSource{{Index: S[0], Field: "nosuch", View: "standard", Shard: 0}},
			NodeStatus:    &pilosa.NodeStatus{Node: co.node(), Schema: &pilosa.Schema{}},
			ClusterStatus: &pilosa.ClusterStatus{ClusterID: pilosa.VCluster(co.srv).ID, State: pilosa.ClusterStateNormal, Nodes: members}}
		b = append([]byte{8}, enc(instr)...)
	default: // well-formed, about things that do not exist
		m := c06Msg((sub&0xff)%c06NTypes, S[0], r.Bool(0.5))
		t := byte((sub & 0xff) % c06NTypes)
		if _, ok := m.(*pilosa.NodeStateMessage); ok {
			t = 12
		}
		b = append([]byte{t}, enc(m)...)
	}
	// classify: does it decode, and if so can it change anything that exists?
	decodes, harmless := false, true
	if len(b) > 0 && int(b[0]) < len(c06MsgTypes) {
		m := c06MsgTypes[b[0]]()
		func() {
			defer func() { recover() }()
			if err := ser.Unmarshal(b[1:], m); err == nil {
				decodes = true
			}
		}()
		if decodes {
			harmless = c06Harmless(d, m)
		}
	}
	if variant == 6 {
		harmless = true // by construction
	}
	what := fmt.Sprintf("badmessage(v%d.%d %x via %s to %s decodes=%v harmless=%v)", variant, sub, clipBytes(b), []string{"http", "gossip path"}[path&1], nd.id, decodes, harmless)
	if decodes && !harmless && !terminal {
		d.c.Probe("badmessage-skipped-state-changing")
		return
	}
	d.last = what
	d.c.Logf("C06 %s", what)
	outcome := ""
	if path&1 == 1 {
		var err error
		panicked := false
		func() {
			defer func() {
				if rec := recover(); rec != nil {
					panicked = true
					d.c.Fail("gossip-panic", "after %s: API.ClusterMessage(%x) panicked on the path gossip uses (memberSet.NotifyMsg/MergeRemoteState call it with no recover): %v\n%s", d.last, clipBytes(b), rec, c06Stack())
				}
			}()
			err = nd.api.ClusterMessage(context.Background(), bytes.NewReader(b))
		}()
		if panicked {
			return
		}
		outcome = "rejected"
		if err == nil {
			outcome = "accepted"
		}
		d.c.Probe(outcome + ":badmessage")
	} else {
		status, rb, err := c06Post(d, nd, "/internal/cluster/message", "application/x-protobuf", "application/json", b)
		if err != nil {
			d.c.Fail("harness", "%s: transport: %v", what, err)
			return
		}
		outcome = c06Outcome(d, "badmessage", status, rb)
	}
	d.last = what + " " + outcome
	c06st(d).lastBad = append(c06st(d).lastBad, d.last)
	d.c.Logf("C06 -> %s", outcome)
	d.c.Probe(fmt.Sprintf("badmessage:v%d", variant))
	// some messages are handled in a goroutine of their own: give it time to run
	simrt.Sleep(2 * time.Second)
	if decodes && !harmless {
		st.done = true
		d.c.Probe("badmessage-state-changing-delivered")
	}
}

func clipBytes(b []byte) []byte {
	if len(b) > 48 {
		return b[:48]
	}
	return b
}

// ---- 4. import requests ------------------------------------------------------------

// badimport: S=[index,field] I=[variant,sub,seed,node,clear,col]
func c06BadImport(d *db, op simrt.Op) {
	S, I := op.S, op.I
	ix, f := d.lookup(S)
	if f == nil || len(I) < 6 {
		return
	}
	variant, sub, clear := I[0], I[1], I[4] != 0
	r := simrt.NewRand(uint64(I[2]))
	nd := d.cl.nodes[d.node(I[3])]
	col := uint64(I[5])
	shard := col / pilosa.ShardWidth
	ser := proto.Serializer{}
	n := 2 + r.Intn(3)
	cols := make([]uint64, n)
	rows := make([]uint64, n)
	vals := make([]int64, n)
	tss := make([]int64, n)
	for i := range cols {
		cols[i] = col + uint64(i)
		rows[i] = uint64(r.Intn(3))
		vals[i] = f.min + int64(i)
		if vals[i] > f.max {
			vals[i] = f.max
		}
		tss[i] = time.Date(2018, 3, 1+i, 0, 0, 0, 0, time.UTC).UnixNano()
	}
	if f.typ == "bool" {
		for i := range rows {
			rows[i] &= 1
		}
	}
	isInt := f.typ == "int"
	ireq := &pilosa.ImportRequest{Index: ix.name, Field: f.name, Shard: shard, RowIDs: rows, ColumnIDs: cols}
	vreq := &pilosa.ImportValueRequest{Index: ix.name, Field: f.name, Shard: shard, ColumnIDs: cols, Values: vals}
	var body []byte
	ctype := "application/x-protobuf"
	raw := false
	switch variant {
	case 0: // lengths that do not match
		switch sub % 6 {
		case 0:
			ireq.ColumnIDs = cols[:n-1]
			vreq.Values = vals[:n-1]
		case 1:
			ireq.RowIDs = rows[:n-1]
			vreq.ColumnIDs = cols[:n-1]
		case 2:
			ireq.Timestamps = tss[:n-1]
			vreq.Values = nil
		case 3:
			ireq.Timestamps = append(append([]int64(nil), tss...), tss[0])
			vreq.ColumnIDs = nil
		case 4:
			ireq.RowIDs = nil
			vreq.Values = append(append([]int64(nil), vals...), 1)
		default:
			ireq.ColumnIDs = nil
			vreq.Values = vals[:1]
		}
	case 1: // a shard that is not the columns' shard
		ireq.Shard = shard + 1 + uint64(sub%3)
		vreq.Shard = ireq.Shard
	case 2: // columns outside the shard
		far := []uint64{col + pilosa.ShardWidth, 1 << 63, ^uint64(0), col + 7*pilosa.ShardWidth}[sub%4]
		ireq.ColumnIDs = append(append([]uint64(nil), cols[:n-1]...), far)
		vreq.ColumnIDs = ireq.ColumnIDs
	case 3: // timestamps where none are allowed
		ireq.Timestamps = tss
		if f.typ == "time" {
			clear = true
		}
		vreq.Values[0] = f.max + 1 // int fields: a value above the range instead
		if f.max == 1<<62 {
			vreq.Values[0] = 1<<63 - 1
		}
	case 4: // rows / values out of range
		ireq.RowIDs[n-1] = []uint64{2, 1 << 63, ^uint64(0), 1 << 40}[sub%4]
		vreq.Values[n-1] = []int64{f.min - 1, f.max + 1, -1 << 63, 1<<63 - 1}[sub%4]
		if f.min == -(1<<62) && sub%4 < 2 {
			vreq.Values[n-1] = -1 << 63
		}
	case 5: // arbitrary bytes
		body, raw = c06Garbage(r, r.Intn(80)), true
	case 6: // JSON where protobuf is expected
		body, raw = []byte(fmt.Sprintf(`{"index":%q,"field":%q,"shard":%d,"rowIDs":[1],"columnIDs":[%d]}`, ix.name, f.name, shard, col)), true
		if sub%2 == 1 {
			ctype = "application/json"
		}
	case 7: // truncated encoding (cut below)
	case 8: // the body names another index or field than the URL
		if sub%2 == 0 {
			ireq.Field, vreq.Field = "nosuch", "nosuch"
		} else {
			ireq.Index, vreq.Index = "nosuchidx", "nosuchidx"
		}
	default: // the other request type than the field's
		isInt = !isInt
	}
	if !raw {
		var err error
		if isInt {
			body, err = ser.Marshal(vreq)
		} else {
			body, err = ser.Marshal(ireq)
		}
		if err != nil {
			d.c.Fail("harness", "marshal import request: %v", err)
			return
		}
		if variant == 7 && len(body) > 1 {
			body = body[:1+r.Intn(len(body)-1)]
		}
	}
	p := fmt.Sprintf("/index/%s/field/%s/import", ix.name, f.name)
	if clear {
		p += "?clear=true"
	}
	what := fmt.Sprintf("badimport(v%d.%d %s/%s %s col %d node %s clear=%v)", variant, sub, ix.name, f.name, f.typ, col, nd.id, clear)
	d.last = what
	d.c.Logf("C06 %s", what)
	status, rb, err := c06Post(d, nd, p, ctype, "application/x-protobuf", body)
	if err != nil {
		d.c.Fail("harness", "%s: transport: %v", what, err)
		return
	}
	outcome := c06Outcome(d, "badimport", status, rb)
	d.last = what + " " + outcome
	c06st(d).lastBad = append(c06st(d).lastBad, d.last)
	d.c.Logf("C06 -> %s (%d)", outcome, status)
	d.c.Probe(fmt.Sprintf("badimport:v%d", variant))
	if outcome == "accepted" {
		c06Recreate(d, ix.name, f.name)
		if !clear {
			c06st(d).existsTainted[ix.name] = true
		}
	}
}

// ---- 5. stored bitmap data ---------------------------------------------------------

func c06FragmentFiles(dir string) []string {
	var out []string
	filepath.Walk(dir, func(p string, fi os.FileInfo, err error) error {
		if err == nil && !fi.IsDir() && filepath.Base(filepath.Dir(p)) == "fragments" && !strings.Contains(filepath.Base(p), ".") && fi.Size() > 0 {
			out = append(out, p)
		}
		return nil
	})
	sort.Strings(out)
	return out
}

// c06SnapshotEnd returns where the containers' data ends (and the op log starts) in a fragment file.
func c06SnapshotEnd(b []byte) int {
	if len(b) < 8 || le16(b, 0) != 12348 {
		return len(b)
	}
	n := int(binary.LittleEndian.Uint32(b[4:]))
	end := 8 + 16*n
	if end > len(b) {
		return len(b)
	}
	for i := 0; i < n; i++ {
		typ, card := le16(b, 8+12*i+8), le16(b, 8+12*i+10)+1
		off := int(binary.LittleEndian.Uint32(b[8+12*n+4*i:]))
		size := 2 * card
		switch typ {
		case 2:
			size = 8192
		case 3:
			size = 2 + 4*le16(b, off)
		}
		if off+size > end {
			end = off + size
		}
	}
	if end > len(b) {
		return len(b)
	}
	return end
}

func c06CopyDir(src, dst string) error {
	return filepath.Walk(src, func(p string, fi os.FileInfo, err error) error {
		if err != nil {
			return err
		}
		t := filepath.Join(dst, strings.TrimPrefix(p, src))
		if fi.IsDir() {
			return os.MkdirAll(t, 0777)
		}
		b, err := os.ReadFile(p)
		if err != nil {
			return err
		}
		return os.WriteFile(t, b, 0666)
	})
}

// badstorage: I=[variant,seed]. Single node: close, damage one fragment file in
// a copy of the data directory, open the copy. A server whose Open failed keeps
// its file locks (a real process would exit), hence the copies: every attempt
// runs on fresh files.
func c06BadStorage(d *db, op simrt.Op) {
	I := op.I
	st := c06st(d)
	if len(d.cl.nodes) != 1 || st.done || len(I) < 2 {
		return
	}
	nd := d.cl.nodes[0]
	r := simrt.NewRand(uint64(I[1]))
	if err := nd.close(); err != nil {
		d.c.Fail("restart-error", "close before damaging storage: %v", err)
		return
	}
	open := func() (err error, pan string) {
		defer func() {
			if rec := recover(); rec != nil {
				pan = fmt.Sprintf("%v\n%s", rec, c06Stack())
			}
		}()
		if err := nd.build(); err != nil {
			return err, ""
		}
		return nd.srv.Open(), ""
	}
	orig := nd.dir
	files := c06FragmentFiles(orig)
	if len(files) == 0 {
		if err, pan := open(); err != nil || pan != "" {
			d.c.Fail("restart-error", "reopen: %v %s", err, pan)
			return
		}
		nd.opened = true
		return
	}
	rel := strings.TrimPrefix(files[r.Intn(len(files))], orig)
	good, err := os.ReadFile(orig + rel)
	if err != nil {
		d.c.Fail("harness", "read %s: %v", rel, err)
		return
	}
	b := append([]byte(nil), good...)
	// the header region: cookie, key count, descriptive headers, offsets
	hdr := 8
	if len(b) >= 8 {
		hdr += 16 * int(binary.LittleEndian.Uint32(b[4:]))
	}
	if hdr > len(b) {
		hdr = len(b)
	}
	// a header cut short or announcing more containers than the file holds makes
	// open panic (finding already made): most plans damage what follows the header
	lo := 0
	if d.c.Plan.Knob("hot", 0)&c06HotOpen == 0 {
		lo = hdr
	}
	variant := I[0]
	if variant == 1 && lo > 0 {
		variant = 3
	}
	switch variant {
	case 0:
		// likewise a file cut inside the containers' data: most plans cut the op log
		cut := lo
		if lo > 0 {
			cut = c06SnapshotEnd(b)
		}
		b = b[:cut+r.Intn(len(b)-cut+1)]
	case 1:
		for k := 1 + r.Intn(3); k > 0; k-- {
			b[r.Intn(hdr)] ^= byte(1 + r.Intn(255))
		}
	case 2:
		b = append(b, c06Garbage(r, 1+r.Intn(40))...)
	case 3:
		for k := 1 + r.Intn(3); k > 0 && len(b) > lo; k-- {
			b[lo+r.Intn(len(b)-lo)] ^= byte(1 + r.Intn(255))
		}
	case 4:
		b = c06Garbage(r, len(b))
	default: // an op record announcing far more data than follows
		rec := make([]byte, simrt.Pick(r, 13, 17, 40))
		rec[0] = byte(r.Intn(6))
		n := uint64(1) << uint(20+r.Intn(40))
		if r.Bool(0.4) {
			n = ^uint64(0) - uint64(r.Intn(40)) // close to 2^64: length arithmetic wraps
		}
		binary.LittleEndian.PutUint64(rec[1:], n)
		b = append(b, rec...)
	}
	what := fmt.Sprintf("badstorage(v%d %s %d -> %d bytes)", I[0], rel, len(good), len(b))
	d.last = what
	d.c.Logf("C06 %s", what)
	trial := orig + "-damaged"
	if err := c06CopyDir(orig, trial); err == nil {
		err = os.WriteFile(trial+rel, b, 0666)
	}
	if err != nil {
		d.c.Fail("harness", "copy data directory: %v", err)
		return
	}
	d.c.Probe(fmt.Sprintf("badstorage:v%d", I[0]))
	nd.dir = trial
	oerr, pan := open()
	if pan != "" {
		d.c.Fail("open-panic", "after %s: opening the server on the damaged file panicked: %s", what, pan)
		return
	}
	if oerr == nil {
		// accepted: the fragment may now legitimately hold anything
		nd.opened = true
		st.done = true
		d.c.Probe("badstorage-opened")
		d.c.Logf("C06 -> opened")
		return
	}
	d.c.Probe("badstorage-rejected")
	d.c.Logf("C06 -> open failed")
	// rejected with an error: apart from the damaged file, which gets its bytes
	// back, the directory the failed open leaves behind must still be the database
	func() {
		defer func() { recover() }()
		nd.srv.Close()
		nd.api.Close()
	}()
	again := orig + "-restored"
	if err := c06CopyDir(trial, again); err == nil {
		err = os.WriteFile(again+rel, good, 0666)
	}
	if err != nil {
		d.c.Fail("harness", "copy data directory: %v", err)
		return
	}
	nd.dir = again
	oerr2, pan2 := open()
	if oerr2 != nil || pan2 != "" {
		d.c.Fail("reopen-after-rejected-open", "after %s: the open failed (%v); with the file's bytes put back the directory it left behind does not open: %v %s", what, oerr, oerr2, pan2)
		return
	}
	nd.opened = true
	d.last = what + " rejected, bytes restored"
	st.lastBad = append(st.lastBad, d.last)
}

// ---- 6. internal RPCs damaged in flight ------------------------------------------------

// corruptq: S=[index,expr] I=[node,arg,nth]. A valid read query whose forwarded
// copies (node to node, protobuf QueryRequest) are damaged on the wire: the
// n-th forward from every node has bytes flipped, cut or appended. The answer
// is not judged (a damaged forward may be another valid query); the request
// must return and the cluster must serve the follow-ups.
func c06CorruptQuery(d *db, op simrt.Op) {
	S, I := op.S, op.I
	ix := d.m.idx[S[0]]
	if ix == nil || len(I) < 3 || len(d.cl.nodes) < 2 {
		return
	}
	node := d.node(I[0])
	for _, nd := range d.cl.nodes {
		d.cl.net.AddFault(&simrt.NetFault{Kind: "corrupt", Src: nd.host, Class: "query", N: int(I[2]), Arg: I[1]})
	}
	q := parseExpr(S[1]).pql()
	what := fmt.Sprintf("corruptq(%s via node %d, forward #%d damaged with %d)", q, node, I[2], I[1])
	d.last = what
	d.c.Logf("C06 %s", what)
	_, err := d.cl.query(node, ix.name, q)
	fired := d.cl.net.FaultsFired()["fault:corrupt"]
	d.cl.net.ClearFaults()
	outcome := "rejected"
	switch {
	case err == nil:
		outcome = "accepted"
	case strings.Contains(err.Error(), "PANIC"):
		d.c.Probe("recovered-panic:corruptq")
	}
	if fired > 0 {
		d.c.Probe("corruptq-forward-damaged")
	}
	d.c.Probe(outcome + ":corruptq")
	d.last = what + " " + outcome
	d.c.Logf("C06 -> %s", outcome)
	c06st(d).lastBad = append(c06st(d).lastBad, d.last)
}

// ---- op dispatch ---------------------------------------------------------------------

func c06Extra(d *db, op simrt.Op) bool {
	st := c06st(d)
	switch op.K {
	case "badroaring", "badquery", "badmessage", "badimport", "badstorage", "corruptq":
		if st.done {
			return true
		}
		switch op.K {
		case "badroaring":
			c06BadRoaring(d, op)
		case "badquery":
			c06BadQuery(d, op)
		case "badmessage":
			c06BadMessage(d, op)
		case "badimport":
			c06BadImport(d, op)
		case "corruptq":
			c06CorruptQuery(d, op)
		default:
			c06BadStorage(d, op)
		}
		return true
	case "qnot": // S=[index,expr] I=[node,count]: a query that reads the existence field
		if st.done || st.existsTainted[op.S[0]] {
			return true
		}
		d.checkQuery(op.S[0], parseExpr(op.S[1]), d.node(op.I[0]), len(op.I) > 1 && op.I[1] != 0)
		return true
	case "ifok": // S=[kind, S...]: an ordinary op that only runs while the model is valid
		if st.done || len(op.S) == 0 {
			return true
		}
		d.apply(simrt.Op{K: op.S[0], S: op.S[1:], I: op.I})
		return true
	}
	if st.done {
		return true
	}
	return dbExtra(d, op)
}

// ---- generator -------------------------------------------------------------------------

type c06Gen struct {
	g     *dbGen
	r     *simrt.Rand
	hot   int64
	fresh int64 // next offset for columns nothing else writes
	wrap  bool  // emit follow-ups as "ifok" (after a terminal op)
}

// known-defect triggers; each is enabled in a small share of the plans (knob "hot")
const (
	c06HotRoaringCrash = 1 << iota // payloads that reach the unchecked parts of the roaring decoder (the import worker dies)
	c06HotGossip                   // messages that make API.ClusterMessage panic
	c06HotExists                   // refused writes that mark columns as existing
	c06HotPartial                  // payloads whose first containers are applied before a later one is refused
	c06HotHang                     // Shift(n=99999999999)
	c06HotResize                   // ResizeInstruction messages with absent parts (a goroutine dies)
	c06HotOpen                     // a fragment file of one byte
)

// write is g.write() without clearing imports on time fields (what such an
// import does to the time views is C19's subject and not judged here).
func (cg *c06Gen) write() simrt.Op {
	op := cg.g.write()
	if op.K == "import" && op.I[0] != 0 {
		for _, f := range cg.g.fields {
			if f.name == op.S[1] && f.typ == "time" {
				op.I[0] = 0
			}
		}
	}
	return op
}

func (cg *c06Gen) emit(ops []simrt.Op, op simrt.Op) []simrt.Op {
	if cg.wrap && op.K != "qnot" {
		op = simrt.Op{K: "ifok", S: append([]string{op.K}, op.S...), I: op.I}
	}
	return append(ops, op)
}

func (cg *c06Gen) colInShard(shard int64) int64 {
	var c []int64
	for _, x := range cg.g.cols {
		if x/int64(pilosa.ShardWidth) == shard {
			c = append(c, x)
		}
	}
	if len(c) == 0 {
		return shard*int64(pilosa.ShardWidth) + 5
	}
	return c[cg.r.Intn(len(c))]
}

func (cg *c06Gen) freshCol(shard int64) int64 {
	cg.fresh++
	return shard*int64(pilosa.ShardWidth) + 900 + 16*cg.fresh
}

func (cg *c06Gen) query(ops []simrt.Op, e *expr) []simrt.Op {
	k := simrt.Pick(cg.r, "q", "q", "count")
	if usesNot(e) {
		cnt := int64(0)
		if k == "count" {
			cnt = 1
		}
		return cg.emit(ops, simrt.Op{K: "qnot", S: []string{cg.g.index, e.json()}, I: []int64{cg.g.node(), cnt}})
	}
	return cg.emit(ops, simrt.Op{K: k, S: []string{cg.g.index, e.json()}, I: []int64{cg.g.node()}})
}

func (cg *c06Gen) rowExpr(f *dbGenField, row int64) *expr {
	switch f.typ {
	case "int":
		return &expr{K: "rowi", F: f.name, Op: "notnull"}
	case "bool":
		return &expr{K: "row", F: f.name, R: row & 1, B: true}
	case "time":
		if f.noStd {
			return &expr{K: "rowt", F: f.name, R: row, From: cg.g.base.AddDate(-1, 0, 0).Unix(), To: cg.g.base.AddDate(5, 0, 0).Unix()}
		}
	}
	return &expr{K: "row", F: f.name, R: row}
}

// follow emits what comes after every malformed request: model-checked queries
// on the index (a) and a valid write to the same field and shard plus a read (b).
func (cg *c06Gen) follow(ops []simrt.Op, f *dbGenField, shard int64, rows []int64) []simrt.Op {
	g, r := cg.g, cg.r
	for _, row := range rows {
		ops = cg.query(ops, cg.rowExpr(f, row))
	}
	for i := 1 + r.Intn(2); i > 0; i-- {
		ops = cg.query(ops, g.expr(1+r.Intn(2)))
	}
	if !g.noNot {
		ops = cg.query(ops, &expr{K: "not", C: []*expr{cg.rowExpr(f, g.row())}})
	}
	switch r.Intn(4) {
	case 0:
		if fi := g.field("int"); fi != nil {
			ops = cg.emit(ops, simrt.Op{K: simrt.Pick(r, "sum", "min", "max"), S: []string{g.index, fi.name, ""}, I: []int64{g.node()}})
		}
	case 1:
		if f.typ != "int" && !(f.typ == "time" && f.noStd) {
			ops = cg.emit(ops, simrt.Op{K: "rows", S: []string{g.index, f.name}, I: []int64{g.node(), -1, 0, -1, 0, 0}})
		}
	}
	// (b) the same field and shard still takes writes and serves them
	col := cg.colInShard(shard)
	row := g.row()
	idx := []string{g.index, f.name}
	switch f.typ {
	case "int":
		v := g.intVal(f)
		ops = cg.emit(ops, simrt.Op{K: "set", S: idx, I: []int64{v, col, g.node(), 0}})
		ops = cg.query(ops, &expr{K: "rowi", F: f.name, Op: "==", V: v})
	case "time":
		ts := int64(0)
		if f.noStd || r.Bool(0.5) {
			ts = g.ts()
		}
		ops = cg.emit(ops, simrt.Op{K: "set", S: idx, I: []int64{row, col, g.node(), ts}})
		ops = cg.query(ops, cg.rowExpr(f, row))
	default:
		if r.Bool(0.3) {
			ops = cg.emit(ops, simrt.Op{K: "import", S: idx, I: []int64{0, g.node(), row, col, 0}})
		} else {
			ops = cg.emit(ops, simrt.Op{K: "set", S: idx, I: []int64{row, col, g.node(), 0}})
		}
		ops = cg.query(ops, cg.rowExpr(f, row))
	}
	return ops
}

func (cg *c06Gen) fieldNames() []string {
	out := []string{cg.g.index}
	for _, t := range []string{"set", "int", "time", "bool", "mutex"} {
		n := ""
		if f := cg.g.field(t); f != nil {
			n = f.name
		}
		out = append(out, n)
	}
	return out
}

func (cg *c06Gen) shard() int64 { return cg.g.col() / int64(pilosa.ShardWidth) }

// safe roaring damage: refused (or accepted) before any container is touched
var c06SafeRoaring = [][2]int64{{0, 1}, {0, 2}, {0, 3}, {1, 1}, {1, 2}, {1, 3}, {5, 0}, {5, 1}, {5, 2}, {5, 3}, {5, 4}, {5, 5}, {5, 6},
	{7, 0}, {7, 1}, {7, 2}, {7, 3}, {7, 4}, {7, 5}, {9, 0}, {9, 1}, {9, 2}, {10, 0}}

func (cg *c06Gen) badRoaring(ops []simrt.Op) []simrt.Op {
	g, r := cg.g, cg.r
	f := g.field("set", "time")
	if f == nil {
		return ops
	}
	shard := cg.shard()
	// three levels: damage that is known to be refused or accepted as a whole;
	// damage that makes the decoder stop after it applied some containers
	// (hot: partial); anything (hot: crash)
	var variant, sub, enc int64
	path := int64(simrt.Pick(r, 0, 0, 0, 1, 2, 2))
	switch {
	case cg.hot&c06HotRoaringCrash != 0:
		variant, sub, enc = int64(r.Intn(11)), int64(r.Intn(8)), int64(r.Intn(3))
		switch variant {
		case 7:
			enc = 2
		case 8:
			enc = simrt.Pick(r, int64(4), 5)
		case 3:
			enc = simrt.Pick(r, int64(0), 0, 3, 4, 1, 2)
		default:
			if r.Bool(0.15) {
				enc = int64(3 + r.Intn(3))
			}
		}
	case cg.hot&c06HotPartial != 0 && r.Bool(0.6):
		variant, sub, enc = 0, 5, int64(r.Intn(3)) // the last byte is missing
		if r.Bool(0.5) {
			variant, sub = 4, int64(4+r.Intn(2)) // a cardinality that needs more data than there is
		}
	default:
		vs := c06SafeRoaring[r.Intn(len(c06SafeRoaring))]
		variant, sub, enc = vs[0], vs[1], int64(r.Intn(3))
		if r.Bool(0.15) {
			enc = int64(3 + r.Intn(3))
		}
		if variant == 7 {
			enc = 2
		}
		if variant == 0 && sub == 1 && path == 2 {
			path = 0 // a 1-byte slice handed to the API directly belongs to the crash level
		}
	}
	clear := int64(0)
	if r.Bool(0.2) {
		clear = 1
	}
	view := ""
	if f.typ == "time" && r.Bool(0.4) {
		view = simrt.Pick(r, "2018", "201801", "20180101", "2018010100")
	}
	I := []int64{variant, sub, int64(r.Uint64() >> 2), enc, g.node(), path, clear}
	// bits: one fresh column per row (so that a partly applied payload shows) plus stored columns
	nrows := 2 + r.Intn(3)
	var rows []int64
	fresh := cg.freshCol(shard)
	for i := 0; i < nrows && i < len(g.rows); i++ {
		row := g.rows[i]
		rows = append(rows, row)
		I = append(I, row, fresh)
		if r.Bool(0.6) {
			I = append(I, row, cg.colInShard(shard))
		}
		if r.Bool(0.3) {
			I = append(I, row, shard*int64(pilosa.ShardWidth)+70000+int64(r.Intn(5)))
		}
	}
	if enc >= 4 || r.Bool(0.2) { // a run of adjacent columns
		for k := int64(1); k < 6; k++ {
			I = append(I, rows[0], fresh+k)
		}
	}
	ops = append(ops, simrt.Op{K: "badroaring", S: []string{g.index, f.name, view}, I: I})
	if len(rows) > 3 {
		rows = rows[:3]
	}
	return cg.follow(ops, f, shard, rows)
}

func (cg *c06Gen) badQuery(ops []simrt.Op) []simrt.Op {
	g, r := cg.g, cg.r
	shard := cg.shard()
	variant, sub := int64(r.Intn(16)), int64(r.Intn(40))
	for tries := 0; tries < 20; tries++ {
		// refused writes mark the column as existing: visible only where existence is tracked
		if variant == 15 && !g.noNot && cg.hot&c06HotExists == 0 {
			variant = int64(r.Intn(15))
			continue
		}
		// Shift(..., n=99999999999) shifts one position at a time
		if variant == 11 && sub%9 == 3 && cg.hot&c06HotHang == 0 {
			sub = int64(r.Intn(40))
			continue
		}
		break
	}
	ops = append(ops, simrt.Op{K: "badquery", S: cg.fieldNames(), I: []int64{variant, sub, int64(r.Uint64() >> 2), g.node(), int64(r.Intn(2)), cg.freshCol(shard)}})
	f := &g.fields[r.Intn(len(g.fields))]
	return cg.follow(ops, f, shard, []int64{g.row()})
}

func (cg *c06Gen) badMessage(ops []simrt.Op, terminal bool) []simrt.Op {
	g, r := cg.g, cg.r
	var variant, sub, path int64
	for tries := 0; tries < 50; tries++ {
		variant = int64(r.Intn(6))
		sub = int64(r.Intn(c06NTypes))
		path = int64(r.Intn(2))
		if cg.hot&c06HotResize != 0 && r.Bool(0.15) {
			variant, sub = 6, 8
			break
		}
		switch variant {
		case 1, 2:
			sub = int64(simrt.Pick(r, r.Intn(c06NTypes), r.Intn(c06NTypes), 17+r.Intn(4), 255))
			if terminal { // prefer the types that act on membership
				sub = int64(simrt.Pick(r, 7, 8, 10, 11, 12, 14, 15))
			}
		case 4:
			sub += int64(r.Intn(c06NTypes)) << 8
		}
		typ := (sub & 0xff) % c06NTypes // the type byte on the wire
		switch variant {
		case 0:
			typ = -1
		case 1, 2:
			typ = sub
		case 4:
			typ = sub >> 8
		}
		// the gossip path has no recover: empty bodies, unknown types, DeleteField for an
		// unknown index and DeleteAvailableShard for an unknown field panic there
		if path == 1 && cg.hot&c06HotGossip == 0 && (typ < 0 || typ >= 16 || typ == 4) {
			continue
		}
		// a ResizeInstruction with absent parts kills the goroutine that follows it
		if typ == 8 && cg.hot&c06HotResize == 0 {
			continue
		}
		break
	}
	t := int64(0)
	if terminal {
		t = 1
	}
	ops = append(ops, simrt.Op{K: "badmessage", S: []string{g.index}, I: []int64{variant, sub, int64(r.Uint64() >> 2), g.node(), path, t}})
	f := &g.fields[r.Intn(len(g.fields))]
	return cg.follow(ops, f, cg.shard(), []int64{g.row()})
}

func (cg *c06Gen) corruptQuery(ops []simrt.Op) []simrt.Op {
	g, r := cg.g, cg.r
	ns := g.noNot
	g.noNot = true
	e := g.expr(1 + r.Intn(2))
	g.noNot = ns
	ops = append(ops, simrt.Op{K: "corruptq", S: []string{g.index, e.json()}, I: []int64{g.node(), int64(r.Uint64() >> 34), int64(1 + r.Intn(2))}})
	f := &g.fields[r.Intn(len(g.fields))]
	return cg.follow(ops, f, cg.shard(), []int64{g.row()})
}

func (cg *c06Gen) badImport(ops []simrt.Op) []simrt.Op {
	g, r := cg.g, cg.r
	f := &g.fields[r.Intn(len(g.fields))]
	shard := cg.shard()
	clear := int64(0)
	// a refused import has already marked its columns as existing; only clearing imports do not
	if r.Bool(0.2) || (!g.noNot && cg.hot&c06HotExists == 0) {
		clear = 1
	}
	variant, sub := int64(r.Intn(10)), int64(r.Intn(8))
	// a column beyond the last possible shard is refused after the batch's other fragments were written
	if variant == 2 && (sub%4 == 1 || sub%4 == 2) && cg.hot&c06HotPartial == 0 {
		sub = simrt.Pick(r, int64(0), 3)
	}
	ops = append(ops, simrt.Op{K: "badimport", S: []string{g.index, f.name}, I: []int64{variant, sub, int64(r.Uint64() >> 2), g.node(), clear, cg.freshCol(shard)}})
	return cg.follow(ops, f, shard, []int64{0, 1, 2})
}

func genC06(r *simrt.Rand, tier string) *simrt.Plan {
	// inputs that trigger the findings still open (refused writes that mark
	// existence, Shift by a huge n) are enabled in a small share of the plans so
	// that the other plans explore past them; the one that hangs the child process
	// (and costs its worker the remaining budget) in a very small share, smaller
	// still on long runs. The inputs behind the repaired defects (decoder crashes,
	// gossip-path panics, partly applied payloads, resize instructions with absent
	// parts, cut fragment files) are enabled in about half of the plans
	// (drawn first and from a generator of their own; the salt keeps the default
	// seed window of `check selftest`, 1000..1039, free of process-killing plans)
	fr := simrt.NewRand(r.Uint64() + 5)
	hot := int64(0)
	fatal := 0.015
	if tier == "thorough" {
		fatal = 0.0015
	}
	for _, h := range []struct {
		bit int64
		p   float64
	}{{c06HotRoaringCrash, 0.5}, {c06HotGossip, 0.5}, {c06HotExists, 0.08}, {c06HotPartial, 0.5}, {c06HotHang, fatal / 2}, {c06HotResize, 0.4}, {c06HotOpen, 0.5}} {
		if fr.Bool(h.p) {
			hot |= h.bit
		}
	}
	nodes := simrt.Pick(r, 1, 1, 2, 3)
	replicas := 1
	if nodes > 1 && r.Bool(0.3) {
		replicas = 2
	}
	g := newDBGen(r, nodes)
	g.noStore = replicas > 1 || r.Bool(0.5)
	g.noShift = true
	track := r.Bool(0.6)
	types := []string{"set"}
	for _, t := range []string{"time", "int", "mutex", "bool", "set"} {
		if r.Bool(0.55) {
			types = append(types, t)
		}
	}
	ops := g.schema(track, types)
	cg := &c06Gen{g: g, r: r, hot: hot}
	for i := 4 + r.Intn(10); i > 0; i-- {
		ops = append(ops, cg.write())
	}
	// swarm: each plan enables a subset of the malformed kinds
	var kinds []string
	for _, k := range []string{"roaring", "roaring", "query", "message", "import"} {
		if r.Bool(0.6) {
			kinds = append(kinds, k)
		}
	}
	if len(kinds) == 0 {
		kinds = []string{"roaring", "query", "message", "import"}
	}
	if nodes > 1 && r.Bool(0.5) {
		kinds = append(kinds, "rpc")
	}
	for i := 2 + r.Intn(5); i > 0; i-- {
		switch kinds[r.Intn(len(kinds))] {
		case "roaring":
			ops = cg.badRoaring(ops)
		case "query":
			ops = cg.badQuery(ops)
		case "message":
			ops = cg.badMessage(ops, false)
		case "rpc":
			ops = cg.corruptQuery(ops)
		default:
			ops = cg.badImport(ops)
		}
		if r.Bool(0.4) {
			ops = append(ops, cg.write())
		}
	}
	// terminal requests: afterwards the model may be void, so follow-ups are conditional
	switch {
	case nodes == 1 && r.Bool(0.3):
		ops = append(ops, simrt.Op{K: "badstorage", I: []int64{int64(r.Intn(6)), int64(r.Uint64() >> 2)}})
		cg.wrap = true
		f := &g.fields[r.Intn(len(g.fields))]
		ops = cg.follow(ops, f, cg.shard(), []int64{0, 1, 2, 7})
	case r.Bool(0.15):
		cg.wrap = true
		ops = cg.badMessage(ops, true)
	}
	p := dbPlan(r, nodes, replicas, ops)
	p.Knobs["hot"] = cg.hot
	return p
}
