package pilosa_test

// C28: all write paths for the same bits yield the same answers. Twin fields
// of identical type and options receive the same logical data through
// different, seeded mixtures of paths; every query is run on both twins and the
// answers are compared with each other and with the model.

import (
	"context"
	"fmt"
	"sort"
	"strings"
	"time"

	"github.com/pilosa/pilosa"
	"verif/simrt"
)

func init() {
	simrt.Register(&simrt.Prop{ID: "C28", Gen: genC28, Exec: execDB(c28Extra)})
}

// viewSuffixes returns the time-view suffixes a timestamp belongs to for a quantum
// (documented naming: standard_YYYY, standard_YYYYMM, standard_YYYYMMDD, standard_YYYYMMDDHH).
func viewSuffixes(q string, ts int64) []string {
	t := time.Unix(ts, 0).UTC()
	var out []string
	for _, u := range q {
		switch u {
		case 'Y':
			out = append(out, t.Format("2006"))
		case 'M':
			out = append(out, t.Format("200601"))
		case 'D':
			out = append(out, t.Format("20060102"))
		case 'H':
			out = append(out, t.Format("2006010215"))
		}
	}
	return out
}

func c28Extra(d *db, op simrt.Op) bool {
	S, I := op.S, op.I
	switch op.K {
	case "iroaringt": // S=[index,field] I=[fmt,node,row,col,ts]: one timestamped bit through roaring import into every view
		ix, f := d.lookup(S)
		if f == nil || f.typ != "time" {
			return true
		}
		r, c, ts := uint64(I[2]), uint64(I[3]), I[4]
		shard := c / pilosa.ShardWidth
		pos := []uint64{r*pilosa.ShardWidth + c%pilosa.ShardWidth}
		enc := func() []byte {
			switch I[0] {
			case 0:
				return simrt.EncodePilosa(pos, 0, nil)
			case 1:
				return simrt.EncodeOfficial(pos, false, nil)
			}
			return simrt.EncodeOfficial(pos, true, nil)
		}
		views := map[string][]byte{}
		if !f.noStd {
			views[""] = enc()
		}
		if ts != 0 {
			for _, sfx := range viewSuffixes(f.quantum, ts) {
				views[sfx] = enc()
			}
		}
		if len(views) == 0 {
			return true
		}
		nd := d.cl.nodes[d.node(I[1])]
		req := &pilosa.ImportRoaringRequest{Views: views}
		if err := nd.ext.ImportRoaring(context.Background(), nd.uri, ix.name, f.name, shard, false, req); err != nil {
			d.c.Fail("write-error", "ImportRoaring(%s/%s views %d): %v", ix.name, f.name, len(views), err)
			return true
		}
		d.last = fmt.Sprintf("iroaringt(%s/%s r=%d c=%d ts=%d)", ix.name, f.name, r, c, ts)
		f.setBit(r, c, ts)
		return true
	case "twinq": // S=[index, exprA, exprB] I=[node, count]
		ix := d.m.idx[S[0]]
		if ix == nil {
			return true
		}
		ea, eb := parseExpr(S[1]), parseExpr(S[2])
		qa, qb := ea.pql(), eb.pql()
		if I[1] != 0 {
			qa, qb = "Count("+qa+")", "Count("+qb+")"
		}
		ra, erra := d.query(d.node(I[0]), ix.name, qa)
		rb, errb := d.query(d.node(I[0]), ix.name, qb)
		if (erra == nil) != (errb == nil) {
			d.fail("twin-differs", "%s -> err %v, but twin %s -> err %v", qa, erra, qb, errb)
			return true
		}
		if erra != nil {
			return true
		}
		sa, sb := fmt.Sprint(ra[0]), fmt.Sprint(rb[0])
		if ca, ok := rowColumns(ra[0]); ok {
			cb, _ := rowColumns(rb[0])
			sa, sb = fmtU64(ca), fmtU64(cb)
		}
		if sa != sb {
			d.fail("twin-differs", "%s = %s but twin %s = %s", qa, sa, qb, sb)
			return true
		}
		d.c.Probe("twin-queries-compared")
		// and both against the model
		d.checkQuery(S[0], ea, d.node(I[0]), I[1] != 0)
		if !d.c.Failed() {
			d.checkQuery(S[0], eb, d.node(I[0]), I[1] != 0)
		}
		return true
	}
	return dbExtra(d, op)
}

func renameTwin(e *expr) *expr {
	c := *e
	if strings.HasSuffix(c.F, "a") {
		c.F = c.F[:len(c.F)-1] + "b"
	}
	c.C = nil
	for _, ch := range e.C {
		c.C = append(c.C, renameTwin(ch))
	}
	return &c
}

func genC28(r *simrt.Rand, tier string) *simrt.Plan {
	nodes := simrt.Pick(r, 1, 1, 2, 3)
	replicas := 1
	if nodes > 1 && r.Bool(0.4) {
		replicas = 2
	}
	g := newDBGen(r, nodes)
	g.noStore = true
	g.noShift = true
	track := r.Bool(0.5)
	var types []string
	for _, t := range []string{"set", "mutex", "bool", "time", "int"} {
		if r.Bool(0.6) {
			types = append(types, t)
		}
	}
	if len(types) == 0 {
		types = []string{"set"}
	}
	ops := g.schema(track, types)
	// rename to <x>a and add the twin <x>b with identical options
	n := len(g.fields)
	for i := 0; i < n; i++ {
		base := fmt.Sprintf("%c%d", g.fields[i].typ[0], i)
		g.fields[i].name = base + "a"
		ops[1+i].S[1] = base + "a"
		tw := ops[1+i]
		tw.S = append([]string(nil), tw.S...)
		tw.S[1] = base + "b"
		tw.I = append([]int64(nil), tw.I...)
		ops = append(ops, tw)
	}
	twinOf := func(name string) string { return name[:len(name)-1] + "b" }
	emit := func(f *dbGenField, name string, kind string, row, col, ts, val int64) {
		idx := []string{g.index, name}
		switch f.typ {
		case "int":
			if kind == "clear" {
				ops = append(ops, simrt.Op{K: "importval", S: idx, I: []int64{1, g.node(), col, val}})
			} else if r.Bool(0.5) {
				ops = append(ops, simrt.Op{K: "set", S: idx, I: []int64{val, col, g.node(), 0}})
			} else {
				ops = append(ops, simrt.Op{K: "importval", S: idx, I: []int64{0, g.node(), col, val}})
			}
		default:
			if kind == "clear" {
				switch x := r.Intn(3); {
				case x == 0:
					ops = append(ops, simrt.Op{K: "clear", S: idx, I: []int64{row, col, g.node()}})
				case x == 1 && f.typ == "set":
					ops = append(ops, simrt.Op{K: "iroaring", S: idx, I: []int64{1, int64(r.Intn(3)), g.node(), row, col}})
				default:
					if f.typ == "time" {
						ops = append(ops, simrt.Op{K: "clear", S: idx, I: []int64{row, col, g.node()}})
					} else {
						ops = append(ops, simrt.Op{K: "import", S: idx, I: []int64{1, g.node(), row, col, 0}})
					}
				}
				return
			}
			switch x := r.Intn(3); {
			case x == 0:
				ops = append(ops, simrt.Op{K: "set", S: idx, I: []int64{row, col, g.node(), ts}})
			case x == 1 && f.typ == "set":
				ops = append(ops, simrt.Op{K: "iroaring", S: idx, I: []int64{0, int64(r.Intn(3)), g.node(), row, col}})
			case x == 1 && f.typ == "time":
				ops = append(ops, simrt.Op{K: "iroaringt", S: idx, I: []int64{int64(r.Intn(3)), g.node(), row, col, ts}})
			default:
				ops = append(ops, simrt.Op{K: "import", S: idx, I: []int64{0, g.node(), row, col, ts}})
			}
		}
	}
	steps := 10 + r.Intn(40)
	for i := 0; i < steps; i++ {
		f := &g.fields[r.Intn(n)]
		if f.typ == "int" && r.Bool(0.3) {
			// several values at once: one Set per pair on one twin, one import batch (in a
			// chosen order: the extremes first, last or in the middle) on the other
			type cv struct{ c, v int64 }
			var pairs []cv
			seen := map[int64]bool{}
			for k := 0; k < 2+r.Intn(4); k++ {
				c := g.col()
				if seen[c] {
					continue
				}
				seen[c] = true
				pairs = append(pairs, cv{c, g.intVal(f)})
			}
			switch r.Intn(3) {
			case 0:
				sort.Slice(pairs, func(a, b int) bool { return pairs[a].v > pairs[b].v })
			case 1:
				sort.Slice(pairs, func(a, b int) bool { return pairs[a].v < pairs[b].v })
			}
			I := []int64{0, g.node()}
			for _, p := range pairs {
				ops = append(ops, simrt.Op{K: "set", S: []string{g.index, f.name}, I: []int64{p.v, p.c, g.node(), 0}})
				I = append(I, p.c, p.v)
			}
			ops = append(ops, simrt.Op{K: "importval", S: []string{g.index, twinOf(f.name)}, I: I})
			continue
		}
		if r.Bool(0.6) {
			kind := "set"
			if r.Bool(0.25) {
				kind = "clear"
			}
			row, col, ts, val := g.row(), g.col(), int64(0), int64(0)
			if f.typ == "bool" {
				row &= 1
			}
			if f.typ == "time" && kind == "set" && r.Bool(0.8) {
				ts = g.ts()
			}
			if f.typ == "int" {
				val = g.intVal(f)
			}
			emit(f, f.name, kind, row, col, ts, val)
			emit(f, twinOf(f.name), kind, row, col, ts, val)
			continue
		}
		// queries on both twins
		switch x := r.Intn(6); {
		case x < 3:
			e := g.expr(1 + r.Intn(2))
			if !track {
				e = stripNot(e)
			}
			cnt := int64(r.Intn(2))
			ops = append(ops, simrt.Op{K: "twinq", S: []string{g.index, e.json(), renameTwin(e).json()}, I: []int64{g.node(), cnt}})
		case x == 3 && f.typ == "int":
			k := simrt.Pick(r, "sum", "min", "max")
			nd := g.node()
			ops = append(ops, simrt.Op{K: k, S: []string{g.index, f.name, ""}, I: []int64{nd}}, simrt.Op{K: k, S: []string{g.index, twinOf(f.name), ""}, I: []int64{nd}})
		case x == 4 && f.typ != "int":
			I := []int64{g.node(), -1, 0, -1, 0, 0}
			if f.typ == "time" && r.Bool(0.5) {
				I[4], I[5] = g.alignedRange(f.quantum)
			}
			ops = append(ops, simrt.Op{K: "rows", S: []string{g.index, f.name}, I: I}, simrt.Op{K: "rows", S: []string{g.index, twinOf(f.name)}, I: append([]int64(nil), I...)})
		case x == 5 && (f.typ == "set" || f.typ == "mutex"):
			I := []int64{g.node(), 0, g.row()}
			ops = append(ops, simrt.Op{K: "topn", S: []string{g.index, f.name, ""}, I: I}, simrt.Op{K: "topn", S: []string{g.index, twinOf(f.name), ""}, I: append([]int64(nil), I...)})
		}
	}
	return dbPlan(r, nodes, replicas, ops)
}
