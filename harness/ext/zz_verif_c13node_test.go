package pilosa_test

// C13 at node level (plan knob mode=2): mutex and bool fields of a real Server
// (field -> view -> fragment wiring, reopen from disk) written through the API
// with Set, Clear and Import on columns that already hold a value, with clean
// restarts in between; after every few writes every row of every field is read
// back and compared with the model (at most one row per column, the last one written).

import (
	"verif/simrt"
)

func init() {
	simrt.RegisterMode("C13", 2, &simrt.Prop{ID: "C13", Gen: genC13Node, Exec: execDB(dbExtra)})
}

func genC13Node(r *simrt.Rand, tier string) *simrt.Plan {
	g := newDBGen(r, 1)
	g.noStore = true
	// few columns (so that writes hit columns that hold a value) spread over shards, so that
	// some fragments exist before a restart and others are created after it
	g.cols = []int64{0, 1, 65536, 1048575, 1048576, 1048577, 2097152 + int64(r.Intn(1000)), 3 * 1048576}
	types := []string{simrt.Pick(r, "mutex", "bool")}
	for _, t := range []string{"mutex", "bool", "set"} {
		if r.Bool(0.4) {
			types = append(types, t)
		}
	}
	ops := g.schema(r.Bool(0.3), types)
	readAll := func() []simrt.Op {
		var qs []simrt.Op
		for i := range g.fields {
			f := &g.fields[i]
			rows := g.rows
			if f.typ == "bool" {
				rows = []int64{0, 1}
			}
			for _, row := range rows {
				e := &expr{K: "row", F: f.name, R: row}
				if f.typ == "bool" {
					e.B = true
				}
				qs = append(qs, simrt.Op{K: "q", S: []string{g.index, e.json()}, I: []int64{0}})
			}
			qs = append(qs, simrt.Op{K: "rows", S: []string{g.index, f.name}, I: []int64{0, -1, 0, -1, 0, 0}})
		}
		return qs
	}
	n := 8 + r.Intn(30)
	for i := 0; i < n; i++ {
		switch x := r.Intn(14); {
		case x < 10:
			ops = append(ops, g.write())
		case x < 12:
			ops = append(ops, readAll()...)
		default:
			ops = append(ops, simrt.Op{K: "restart"})
		}
	}
	ops = append(ops, readAll()...)
	ops = append(ops, simrt.Op{K: "restart"})
	ops = append(ops, readAll()...)
	p := dbPlan(r, 1, 1, ops)
	p.Knobs["mode"] = 2
	return p
}
