package pilosa_test

// C09 at node level (plan knob mode=2): a single real Server executes a write
// history through the API while the whole data directory is copied at every
// file-system-operation boundary of the writes; every copy is then opened by a
// fresh Server (the restart must succeed) and compared, fragment by fragment,
// with what the live server held before and after the operation in flight.

import (
	"context"
	"fmt"
	"io"
	"os"
	"path/filepath"
	"sort"
	"strings"

	"github.com/pilosa/pilosa"
	"verif/simrt"
)

func init() {
	simrt.RegisterMode("C09", 2, &simrt.Prop{ID: "C09", Gen: genC09Node, Exec: execC09Node})
}

func genC09Node(r *simrt.Rand, tier string) *simrt.Plan {
	g := newDBGen(r, 1)
	g.noStore = true
	types := []string{simrt.Pick(r, "set", "set", "time", "int", "mutex", "bool")}
	for _, t := range []string{"int", "time", "mutex", "set"} {
		if r.Bool(0.3) {
			types = append(types, t)
		}
	}
	ops := g.schema(r.Bool(0.5), types)
	nschema := len(ops)
	n := 2 + r.Intn(9)
	if tier == "thorough" {
		n = 2 + r.Intn(16)
	}
	for i := 0; i < n; i++ {
		ops = append(ops, g.write())
	}
	p := dbPlan(r, 1, 1, ops)
	p.Knobs["mode"] = 2
	p.Knobs["nschema"] = int64(nschema)
	p.Knobs["eager"] = int64(r.Intn(2))
	return p
}

type fragSnap map[string]map[[2]uint64]bool

func snapOf(srv *pilosa.Server) fragSnap {
	s := fragSnap{}
	for _, k := range pilosa.VFragments(srv) {
		bits, _ := pilosa.VFragmentBits(srv, k)
		m := map[[2]uint64]bool{}
		for _, b := range bits {
			m[b] = true
		}
		s[fmt.Sprintf("%s/%s/%s/%d", k.Index, k.Field, k.View, k.Shard)] = m
	}
	return s
}

func sameBits(a, b map[[2]uint64]bool) bool {
	if len(a) != len(b) {
		return false
	}
	for k := range a {
		if !b[k] {
			return false
		}
	}
	return true
}

// between: every recovered bit is in before or after, and every bit in both is recovered.
func between(got, before, after map[[2]uint64]bool) bool {
	for k := range got {
		if !before[k] && !after[k] {
			return false
		}
	}
	for k := range before {
		if after[k] && !got[k] {
			return false
		}
	}
	return true
}

func bitsString(m map[[2]uint64]bool) string {
	var a [][2]uint64
	for k := range m {
		a = append(a, k)
	}
	sort.Slice(a, func(i, j int) bool {
		if a[i][0] != a[j][0] {
			return a[i][0] < a[j][0]
		}
		return a[i][1] < a[j][1]
	})
	if len(a) > 24 {
		return fmt.Sprintf("%v... (%d bits)", a[:24], len(a))
	}
	return fmt.Sprint(a)
}

func copyDir(src, dst string) error {
	return filepath.Walk(src, func(p string, info os.FileInfo, err error) error {
		if err != nil {
			if os.IsNotExist(err) {
				return nil
			}
			return err
		}
		rel, _ := filepath.Rel(src, p)
		to := filepath.Join(dst, rel)
		if info.IsDir() {
			return os.MkdirAll(to, 0777)
		}
		in, err := os.Open(p)
		if err != nil {
			if os.IsNotExist(err) {
				return nil
			}
			return err
		}
		defer in.Close()
		out, err := os.Create(to)
		if err != nil {
			return err
		}
		defer out.Close()
		_, err = io.Copy(out, in)
		return err
	})
}

type nodeBoundary struct {
	n        int
	op       int
	inflight bool
	what     string
}

func execC09Node(c *simrt.Ctx) {
	var d *db
	var nd *simNode
	var bounds []nodeBoundary
	var snaps []fragSnap
	ops := c.Plan.Clients[0]
	nschema := int(c.Plan.Knob("nschema", 0))
	curOp, inOp, recording, nfs := 0, false, false, 0
	imgRoot := c.Dir + "/img"
	c.S.SetEager(true)
	c.Do("setup", func() {
		cl := newSimCluster(c, 1, 1)
		cl.poolSize = int(c.Plan.Knob("pool", 0))
		d = &db{c: c, cl: cl, m: newDBModel()}
		c.State = d
		if err := cl.start(); err != nil {
			c.Fail("start", "%v", err)
			return
		}
		nd = cl.nodes[0]
		c.S.FSHook = func(op, path string) error {
			if !recording || !strings.HasPrefix(path, nd.dir+"/") {
				return nil
			}
			nfs++
			if nfs > 160 {
				return nil
			}
			if err := copyDir(nd.dir, fmt.Sprintf("%s/%d", imgRoot, nfs)); err != nil {
				panic(err)
			}
			bounds = append(bounds, nodeBoundary{n: nfs, op: curOp, inflight: inOp, what: op + " " + strings.TrimPrefix(path, nd.dir+"/")})
			return nil
		}
	})
	if c.Stopped() {
		if d != nil {
			c.Do("teardown", func() { d.cl.closeAll() })
		}
		return
	}
	c.S.SetEager(c.Plan.Knob("eager", 0) != 0)
	c.Do("c0", func() {
		for i, op := range ops {
			if c.Stopped() {
				return
			}
			if i >= nschema {
				recording = true
				snaps = append(snaps, snapOf(nd.srv))
				curOp, inOp = i-nschema, true
			}
			d.apply(op)
			if i >= nschema {
				inOp = false
				curOp = i - nschema + 1
			}
			c.OpDone()
		}
		snaps = append(snaps, snapOf(nd.srv))
		recording = false
	})
	c.S.SetEager(true)
	c.S.FSHook = nil
	c.Do("teardown", func() { d.cl.closeAll() })
	if c.Stopped() {
		return
	}
	typeOf := func(key string) string {
		p := strings.Split(key, "/")
		if ix := d.m.idx[p[0]]; ix != nil {
			if f := ix.fields[p[1]]; f != nil {
				return f.typ
			}
		}
		return "set"
	}
	opName := func(i int) (string, string) {
		op := ops[nschema+i]
		k := op.K
		typ := "set"
		if len(op.S) >= 2 {
			typ = typeOf(op.S[0] + "/" + op.S[1])
		}
		if typ == "int" {
			k = map[string]string{"set": "setval", "clear": "clearval", "import": "importval"}[k]
			if k == "" {
				k = op.K
			}
		}
		return k, fmt.Sprintf("%s%v%v", op.K, op.S, op.I)
	}
	var pendingTorn *simrt.Violation
	c.Do("recover", func() {
		for _, b := range bounds {
			if c.Failed() {
				return
			}
			cl2 := newSimCluster(c, 0, 1)
			cl2.dirPrefix = fmt.Sprintf("img/%d-", b.n)
			n2 := cl2.addNodeSpec()
			n2.dir = fmt.Sprintf("%s/%d", imgRoot, b.n)
			n2.id = nd.id
			if err := n2.build(); err != nil {
				c.Fail("restart-blocked", "image at fs-op #%d (%s): building the server failed: %v", b.n, b.what, err)
				return
			}
			opk, opdesc := "", ""
			if b.op < len(ops)-nschema {
				opk, opdesc = opName(b.op)
			}
			if err := n2.srv.Open(); err != nil {
				c.Fail("restart-blocked", "image at fs-op #%d (%s, during op %d %s, in flight=%v): the server does not start: %v", b.n, b.what, b.op, opdesc, b.inflight, err)
				return
			}
			n2.opened = true
			got := snapOf(n2.srv)
			depths := map[string]uint{}
			for _, ii := range n2.api.Schema(context.Background()) {
				for _, f := range ii.Fields {
					if f.Options.Type == pilosa.FieldTypeInt {
						depths[ii.Name+"/"+f.Name] = f.Options.BitDepth
					}
				}
			}
			n2.close()
			// an int field must come back with a bit depth that covers every value bit its
			// fragments hold, or the stored values read back truncated
			for _, k := range simrt.SortedKeys(got) {
				p := strings.Split(k, "/")
				depth, isInt := depths[p[0]+"/"+p[1]]
				if !isInt || !strings.HasPrefix(p[2], "bsig_") {
					continue
				}
				top := uint64(0)
				for bit := range got[k] {
					if bit[0] > top {
						top = bit[0]
					}
				}
				if top >= 2 && uint64(depth) < top-2+1 {
					c.Fail("depth-lost", "node image at fs-op #%d (%s), op %d %s in flight=%v: field %s/%s restarts with bit depth %d but fragment %s holds value bit %d: stored values read back truncated",
						b.n, b.what, b.op, opdesc, b.inflight, p[0], p[1], depth, k, top-2)
					return
				}
			}
			c.Probe("node-int-depths-checked")
			before := snaps[b.op]
			after := before
			if b.inflight && b.op+1 < len(snaps) {
				after = snaps[b.op+1]
			}
			keys := map[string]bool{}
			for k := range before {
				keys[k] = true
			}
			for k := range after {
				keys[k] = true
			}
			for k := range got {
				keys[k] = true
			}
			c.Probe("node-images-checked")
			for _, k := range simrt.SortedKeys(keys) {
				g, bf, af := got[k], before[k], after[k]
				if sameBits(g, bf) || sameBits(g, af) {
					continue
				}
				typ := typeOf(k)
				if b.inflight && between(g, bf, af) {
					if pendingTorn == nil {
						pendingTorn = &simrt.Violation{Class: "torn-" + opk + "@" + typ,
							Msg: fmt.Sprintf("node image at fs-op #%d (%s), op %d %s in flight: fragment %s\n recovered: %s\n before:    %s\n after:     %s", b.n, b.what, b.op, opdesc, k, bitsString(g), bitsString(bf), bitsString(af))}
					}
					c.Probe("torn-node-images")
					continue
				}
				cls := "lost-acked"
				if b.inflight {
					cls = "wrong-" + opk + "@" + typ
				}
				c.Fail(cls, "node image at fs-op #%d (%s), op %d %s in flight=%v: fragment %s\n recovered: %s\n before:    %s\n after:     %s", b.n, b.what, b.op, opdesc, b.inflight, k, bitsString(g), bitsString(bf), bitsString(af))
				return
			}
		}
	})
	c.ProbeN("node-fs-boundaries", len(bounds))
	if pendingTorn != nil && !c.Failed() {
		c.Fail(pendingTorn.Class, "%s", pendingTorn.Msg)
	}
}
