package pilosa_test

// Generators for the properties that share the logical database harness.

import (
	"time"

	"github.com/pilosa/pilosa"
	"verif/simrt"
)

func init() {
	simrt.Register(&simrt.Prop{ID: "C14", Gen: genC14, Exec: execDB(dbExtra)})
	simrt.Register(&simrt.Prop{ID: "C16", Gen: genC16, Exec: execDB(dbExtra)})
	simrt.Register(&simrt.Prop{ID: "C17", Gen: genC17, Exec: execDB(dbExtra)})
	simrt.Register(&simrt.Prop{ID: "C18", Gen: genC18, Exec: execDB(dbExtra)})
	simrt.Register(&simrt.Prop{ID: "C19", Gen: genC19, Exec: execDB(dbExtra)})
	simrt.Register(&simrt.Prop{ID: "C08", Gen: genC08, Exec: execDB(dbExtra)})
}

func dbPlan(r *simrt.Rand, nodes, replicas int, ops []simrt.Op) *simrt.Plan {
	return &simrt.Plan{Knobs: map[string]int64{"nodes": int64(nodes), "replicas": int64(replicas), "pool": int64(simrt.Pick(r, 0, 1, 2, 8))},
		Clients: [][]simrt.Op{ops}, Sched: dbSched(r)}
}

func (g *dbGen) filterJSON(p float64) string {
	if !g.r.Bool(p) {
		return ""
	}
	return g.expr(1 + g.r.Intn(2)).json()
}

// ---- C14 ----------------------------------------------------------------------

func genC14(r *simrt.Rand, tier string) *simrt.Plan {
	nodes := simrt.Pick(r, 1, 1, 2, 3)
	replicas := 1
	if nodes > 1 && r.Bool(0.3) {
		replicas = 2
	}
	g := newDBGen(r, nodes)
	g.noStore = true
	types := []string{"int", "set"}
	if r.Bool(0.5) {
		types = append(types, "int")
	}
	ops := g.schema(r.Bool(0.5), types)
	// small-depth runs: one column per representable value
	if f := g.field("int"); f != nil && r.Bool(0.3) && f.max-f.min >= 0 && f.max-f.min <= 200 {
		I := []int64{0, g.node()}
		for v := f.min; v <= f.max; v++ {
			I = append(I, (v-f.min)*65537%int64(3<<20), v)
		}
		ops = append(ops, simrt.Op{K: "importval", S: []string{g.index, f.name}, I: I})
	}
	n := 10 + r.Intn(40)
	for i := 0; i < n; i++ {
		f := g.field("int")
		switch x := r.Intn(10); {
		case x < 4:
			ops = append(ops, g.write())
		case x < 7:
			e := g.leaf()
			for tries := 0; tries < 5 && e.K != "rowi"; tries++ {
				e = g.leaf()
			}
			ops = append(ops, simrt.Op{K: simrt.Pick(r, "q", "q", "count"), S: []string{g.index, e.json()}, I: []int64{g.node()}})
		case x < 9:
			ops = append(ops, simrt.Op{K: simrt.Pick(r, "sum", "min", "max"), S: []string{g.index, f.name, g.filterJSON(0.4)}, I: []int64{g.node()}})
		default:
			if nodes == 1 {
				ops = append(ops, simrt.Op{K: "restart"})
			}
		}
		// a bulk value import between queries: rows the queries cached must not survive it
		if x := r.Intn(25); x == 0 {
			if op, ok := g.bulkVal(); ok {
				ops = append(ops, op,
					simrt.Op{K: "sum", S: []string{g.index, op.S[1], ""}, I: []int64{g.node()}},
					simrt.Op{K: simrt.Pick(r, "min", "max"), S: []string{g.index, op.S[1], ""}, I: []int64{g.node()}})
			}
		}
	}
	return dbPlan(r, nodes, replicas, ops)
}

// ---- C16 ----------------------------------------------------------------------

func genC16(r *simrt.Rand, tier string) *simrt.Plan {
	nodes := simrt.Pick(r, 1, 1, 2, 3)
	g := newDBGen(r, nodes)
	g.rows = []int64{0, 1, 2, 3, 7, 100, 101}[:3+r.Intn(5)]
	types := []string{"set", "set"}
	for _, t := range []string{"mutex", "time", "bool"} {
		if r.Bool(0.4) {
			types = append(types, t)
		}
	}
	ops := g.schema(r.Bool(0.5), types)
	n := 10 + r.Intn(40)
	for i := 0; i < n; i++ {
		f := g.field("set", "mutex", "bool", "time")
		f2 := g.field("set", "mutex", "bool")
		switch x := r.Intn(12); {
		case x < 5:
			ops = append(ops, g.write())
		case x < 7:
			I := []int64{g.node(), -1, 0, -1, 0, 0}
			if r.Bool(0.3) {
				I[1] = g.row()
			}
			if r.Bool(0.3) {
				I[2] = int64(1 + r.Intn(3))
			}
			if r.Bool(0.3) {
				I[3] = g.col()
			}
			if f.typ == "time" && r.Bool(0.6) {
				I[4], I[5] = g.alignedRange(f.quantum)
				switch r.Intn(5) { // one-sided ranges
				case 0:
					I[4] = 0
				case 1:
					I[5] = 0
				}
			}
			ops = append(ops, simrt.Op{K: "rows", S: []string{g.index, f.name}, I: I})
		case x < 8:
			ops = append(ops, simrt.Op{K: "rowspage", S: []string{g.index, f.name}, I: []int64{g.node(), int64(1 + r.Intn(3))}})
		case x < 10:
			second := ""
			if r.Bool(0.6) {
				second = f2.name
			}
			first := g.field("set", "mutex", "bool")
			S := []string{g.index, first.name, second, g.filterJSON(0.3)}
			if second != "" && r.Bool(0.5) {
				S = append(S, g.field("set", "mutex", "bool").name) // a third field
			}
			ops = append(ops, simrt.Op{K: "groupby", S: S,
				I: []int64{g.node(), int64(r.Intn(4)), int64(r.Intn(3)), int64(r.Intn(3))}})
		default:
			fm := g.field("set", "mutex", "bool")
			ops = append(ops, simrt.Op{K: simrt.Pick(r, "minrow", "maxrow"), S: []string{g.index, fm.name, g.filterJSON(0.4)}, I: []int64{g.node()}})
		}
	}
	return dbPlan(r, nodes, 1, ops)
}

// ---- C17 ----------------------------------------------------------------------

func genC17(r *simrt.Rand, tier string) *simrt.Plan {
	nodes := simrt.Pick(r, 2, 3, 3, 4, 5)
	replicas := simrt.Pick(r, 1, 2, 3)
	if replicas > nodes {
		replicas = nodes
	}
	g := newDBGen(r, nodes)
	g.noStore = replicas > 1
	g.noShift = true // Shift across a shard edge is recorded under C15 (C15-F1)
	types := []string{"set", "set", "int"}
	for _, t := range []string{"mutex", "time"} {
		if r.Bool(0.4) {
			types = append(types, t)
		}
	}
	ops := g.schema(r.Bool(0.6), types)
	// data: values tied across shards
	if f := g.field("int"); f != nil {
		v := g.intVal(f)
		I := []int64{0, g.node()}
		for _, c := range g.cols {
			switch {
			case r.Bool(0.25): // no value: some shards contribute nothing to Min/Max/Sum
			case r.Bool(0.6):
				I = append(I, c, v)
			default:
				I = append(I, c, g.intVal(f))
			}
		}
		if len(I) == 2 {
			I = append(I, g.cols[0], v)
		}
		ops = append(ops, simrt.Op{K: "importval", S: []string{g.index, f.name}, I: I})
	}
	for i := 0; i < 8+r.Intn(12); i++ {
		ops = append(ops, g.write())
	}
	nq := 4 + r.Intn(10)
	// with replicas, part of the reads run while one node is unreachable: every shard still has
	// a live owner and the coordinator has to fail over
	downAt, upAt := -1, -1
	if replicas > 1 && r.Bool(0.5) {
		downAt = r.Intn(nq)
		upAt = downAt + 1 + r.Intn(nq-downAt)
	}
	for i := 0; i < nq; i++ {
		if i == downAt {
			ops = append(ops, simrt.Op{K: "nodedown", I: []int64{int64(r.Intn(nodes))}})
		}
		if i == upAt {
			ops = append(ops, simrt.Op{K: "nodeup"})
		}
		fi := g.field("int")
		fs := g.field("set", "mutex")
		if i >= downAt && downAt >= 0 && i < upAt {
			// no writes while a replica is unreachable
		} else if r.Bool(0.2) {
			ops = append(ops, g.write())
		}
		if r.Bool(0.15) {
			if f := g.field("set"); f != nil {
				filt := g.filterJSON(0.3)
				n := int64(1 + r.Intn(3))
				for nd := 0; nd < nodes; nd++ {
					ops = append(ops, simrt.Op{K: "topnn", S: []string{g.index, f.name, filt}, I: []int64{int64(nd), n}})
				}
			}
		}
		switch r.Intn(8) {
		case 0, 1:
			ops = append(ops, simrt.Op{K: "allnodes", S: []string{g.index, g.expr(1 + r.Intn(2)).json()}, I: []int64{int64(r.Intn(2))}})
		case 2, 3:
			k := simrt.Pick(r, "sum", "min", "max")
			filt := g.filterJSON(0.3)
			for nd := 0; nd < nodes; nd++ {
				ops = append(ops, simrt.Op{K: k, S: []string{g.index, fi.name, filt}, I: []int64{int64(nd)}})
			}
		case 4:
			k := simrt.Pick(r, "minrow", "maxrow")
			filt := g.filterJSON(0.3)
			for nd := 0; nd < nodes; nd++ {
				ops = append(ops, simrt.Op{K: k, S: []string{g.index, fs.name, filt}, I: []int64{int64(nd)}})
			}
		case 5:
			I := []int64{0, -1, int64(r.Intn(3)), -1, 0, 0}
			for nd := 0; nd < nodes; nd++ {
				J := append([]int64(nil), I...)
				J[0] = int64(nd)
				ops = append(ops, simrt.Op{K: "rows", S: []string{g.index, fs.name}, I: J})
			}
		case 6:
			filt := g.filterJSON(0.3)
			f2 := g.field("set", "mutex")
			lim, mode := int64(r.Intn(3)), int64(0)
			if r.Bool(0.3) {
				lim, mode = int64(1+r.Intn(3)), 3 // limit= on the first child
			}
			for nd := 0; nd < nodes; nd++ {
				ops = append(ops, simrt.Op{K: "groupby", S: []string{g.index, fs.name, f2.name, filt}, I: []int64{int64(nd), lim, 0, mode}})
			}
		default:
			ids := []int64{g.row()}
			if x := g.row(); x != ids[0] {
				ids = append(ids, x)
			}
			for nd := 0; nd < nodes; nd++ {
				ops = append(ops, simrt.Op{K: "topn", S: []string{g.index, fs.name, ""}, I: append([]int64{int64(nd), 0}, ids...)})
			}
		}

	}
	p := dbPlan(r, nodes, replicas, ops)
	p.Knobs["pool"] = int64(simrt.Pick(r, 1, 2, 8, 16))
	return p
}

// ---- C18 / C19 ------------------------------------------------------------------

func genC18(r *simrt.Rand, tier string) *simrt.Plan {
	nodes := simrt.Pick(r, 1, 1, 2)
	g := newDBGen(r, nodes)
	g.noStore = true
	ops := g.schema(r.Bool(0.5), []string{"time", "time", "set"})
	n := 10 + r.Intn(40)
	for i := 0; i < n; i++ {
		f := g.field("time")
		switch x := r.Intn(10); {
		case x < 4:
			ops = append(ops, simrt.Op{K: "set", S: []string{g.index, f.name}, I: []int64{g.row(), g.col(), g.node(), g.ts()}})
		case x < 5:
			ops = append(ops, g.write())
		case x < 8:
			from, to := g.alignedRange(f.quantum)
			e := &expr{K: "rowt", F: f.name, R: g.row(), From: from, To: to}
			if r.Bool(0.1) {
				e.To = 0 // open-ended: now + 1 day
			}
			ops = append(ops, simrt.Op{K: "q", S: []string{g.index, e.json()}, I: []int64{g.node()}})
		case x < 9:
			from, to := g.alignedRange(f.quantum)
			lim, prev := int64(0), int64(-1)
			if r.Bool(0.4) {
				lim = int64(1 + r.Intn(3)) // views are in time order, not row order: a limit must not cut them short
			}
			if r.Bool(0.2) {
				prev = g.row()
			}
			ops = append(ops, simrt.Op{K: "rows", S: []string{g.index, f.name}, I: []int64{g.node(), prev, lim, -1, from, to}})
		default:
			if nodes == 1 && r.Bool(0.5) {
				ops = append(ops, simrt.Op{K: "restart"})
			} else {
				ops = append(ops, simrt.Op{K: "sleep", I: []int64{int64(simrt.Pick(r, 600, 3600, 86400, 2*86400))}})
			}
		}
	}
	return dbPlan(r, nodes, 1, ops)
}

func genC19(r *simrt.Rand, tier string) *simrt.Plan {
	nodes := simrt.Pick(r, 1, 1, 2, 3)
	replicas := 1
	if nodes > 1 && r.Bool(0.4) {
		replicas = 2
	}
	g := newDBGen(r, nodes)
	g.noStore = true
	g.rows = g.rows[:2]
	g.cols = g.cols[:3]
	ops := g.schema(r.Bool(0.5), []string{"time"})
	f := g.field("time")
	idx := []string{g.index, f.name}
	// timestamp source: the usual 3-year window, or a small pool whose view names share digit
	// groups (year 2001 / month 2020-01 = "202001" / day 20 / hour 01 = "...2001")
	ts := g.ts
	pool := r.Bool(0.35)
	if pool {
		ts = func() int64 {
			return time.Date(simrt.Pick(r, 2001, 2002, 2012, 2020), time.Month(simrt.Pick(r, 1, 5, 12)), simrt.Pick(r, 1, 12, 20), simrt.Pick(r, 1, 12, 20), 0, 0, 0, time.UTC).Unix()
		}
	}
	if r.Bool(0.15) {
		// a field with one time view only: single-unit quantum, no standard view, one period
		f.quantum, f.noStd = simrt.Pick(r, "Y", "M", "D", "H"), true
		mk := &ops[len(ops)-1]
		mk.S[3], mk.I[4] = f.quantum, 1
		one := ts()
		ts = func() int64 { return one }
	}
	if nodes > 1 {
		// one column per shard, so that views are created on different nodes
		g.cols = []int64{1, int64(pilosa.ShardWidth) + 1, 2*int64(pilosa.ShardWidth) + 1}
	}
	rounds := 1 + r.Intn(3)
	for k := 0; k < rounds; k++ {
		row, col := g.row(), g.col()
		ns := 1 + r.Intn(6)
		var stamps []int64
		for i := 0; i < ns; i++ {
			t := ts()
			stamps = append(stamps, t)
			if r.Bool(0.3) {
				// another column (another shard, possibly another node) is the first to be set
				// in this period: its node creates the views and the others learn of them
				ops = append(ops, simrt.Op{K: "set", S: idx, I: []int64{g.row(), g.col(), g.node(), t}})
			}
			ops = append(ops, simrt.Op{K: "set", S: idx, I: []int64{row, col, g.node(), t}})
			if r.Bool(0.5) {
				// sibling views from other columns / rows
				ops = append(ops, simrt.Op{K: "set", S: idx, I: []int64{g.row(), g.col(), g.node(), ts()}})
			}
		}
		if nodes == 1 && r.Bool(0.2) {
			ops = append(ops, simrt.Op{K: "restart"})
		}
		ops = append(ops, simrt.Op{K: "clear", S: idx, I: []int64{row, col, g.node()}})
		nq := 3 + r.Intn(6)
		for i := 0; i < nq; i++ {
			from, to := g.alignedRange(f.quantum)
			ops = append(ops, simrt.Op{K: "q", S: []string{g.index, (&expr{K: "rowt", F: f.name, R: row, From: from, To: to}).json()}, I: []int64{g.node()}})
		}
		// the finest unit around every timestamp the bit was set with, and everything
		u := finestUnit(f.quantum)
		for _, t := range stamps {
			from := truncUnit(time.Unix(t, 0).UTC(), u)
			ops = append(ops, simrt.Op{K: "q", S: []string{g.index, (&expr{K: "rowt", F: f.name, R: row, From: from.Unix(), To: addUnit(from, u, 1).Unix()}).json()}, I: []int64{g.node()}})
		}
		ops = append(ops, simrt.Op{K: "q", S: []string{g.index, (&expr{K: "rowt", F: f.name, R: row, From: time.Date(2000, 1, 1, 0, 0, 0, 0, time.UTC).Unix(), To: time.Date(2030, 1, 1, 0, 0, 0, 0, time.UTC).Unix()}).json()}, I: []int64{g.node()}})
		// the whole window and the standard view
		ops = append(ops, simrt.Op{K: "q", S: []string{g.index, (&expr{K: "rowt", F: f.name, R: row, From: g.base.AddDate(-1, 0, 0).Unix(), To: g.base.AddDate(5, 0, 0).Unix()}).json()}, I: []int64{g.node()}})
		if !f.noStd {
			ops = append(ops, simrt.Op{K: "q", S: []string{g.index, (&expr{K: "row", F: f.name, R: row}).json()}, I: []int64{g.node()}})
		}
	}
	return dbPlan(r, nodes, replicas, ops)
}

// ---- C08 ----------------------------------------------------------------------

func genC08(r *simrt.Rand, tier string) *simrt.Plan {
	g := newDBGen(r, 1)
	types := []string{"set"}
	for _, t := range []string{"int", "time", "mutex", "bool", "int", "set"} {
		if r.Bool(0.55) {
			types = append(types, t)
		}
	}
	ops := g.schema(r.Bool(0.6), types)
	for i := range ops {
		// a cache-less field created with an explicit size of 0
		if ops[i].K == "mkfield" && len(ops[i].I) > 3 && ops[i].I[2] == 2 && r.Bool(0.5) {
			ops[i].I[3] = 0
		}
	}
	battery := func() []simrt.Op {
		var qs []simrt.Op
		for i := range g.fields {
			f := &g.fields[i]
			switch f.typ {
			case "int":
				qs = append(qs, simrt.Op{K: "q", S: []string{g.index, (&expr{K: "rowi", F: f.name, Op: "notnull"}).json()}, I: []int64{0}},
					simrt.Op{K: "sum", S: []string{g.index, f.name, ""}, I: []int64{0}},
					simrt.Op{K: "min", S: []string{g.index, f.name, ""}, I: []int64{0}},
					simrt.Op{K: "max", S: []string{g.index, f.name, ""}, I: []int64{0}},
					simrt.Op{K: "q", S: []string{g.index, (&expr{K: "rowi", F: f.name, Op: simrt.Pick(g.r, "<", ">", "==", "!=", "<=", ">="), V: g.intVal(f)}).json()}, I: []int64{0}})
			case "time":
				from, to := g.alignedRange(f.quantum)
				qs = append(qs, simrt.Op{K: "q", S: []string{g.index, (&expr{K: "rowt", F: f.name, R: g.row(), From: from, To: to}).json()}, I: []int64{0}},
					simrt.Op{K: "rows", S: []string{g.index, f.name}, I: []int64{0, -1, 0, -1, 0, 0}})
				if !f.noStd {
					qs = append(qs, simrt.Op{K: "q", S: []string{g.index, (&expr{K: "row", F: f.name, R: g.row()}).json()}, I: []int64{0}})
				}
			default:
				for _, row := range g.rows {
					e := &expr{K: "row", F: f.name, R: row}
					if f.typ == "bool" {
						e = &expr{K: "row", F: f.name, R: row & 1, B: true}
					}
					qs = append(qs, simrt.Op{K: "q", S: []string{g.index, e.json()}, I: []int64{0}})
				}
				qs = append(qs, simrt.Op{K: "rows", S: []string{g.index, f.name}, I: []int64{0, -1, 0, -1, 0, 0}},
					simrt.Op{K: "maxrow", S: []string{g.index, f.name, ""}, I: []int64{0}},
					simrt.Op{K: "minrow", S: []string{g.index, f.name, ""}, I: []int64{0}})
				if f.typ == "set" {
					ids := []int64{0, 0, g.row()}
					if x := g.row(); x != ids[2] {
						ids = append(ids, x)
					}
					qs = append(qs, simrt.Op{K: "topn", S: []string{g.index, f.name, ""}, I: ids})
				}
			}
		}
		if !g.noNot {
			qs = append(qs, simrt.Op{K: "q", S: []string{g.index, (&expr{K: "not", C: []*expr{{K: "row", F: g.fields[0].name, R: g.row()}}}).json()}, I: []int64{0}})
		}
		return qs
	}
	bulk := g.bulkVal
	n := 6 + r.Intn(30)
	for i := 0; i < n; i++ {
		switch x := r.Intn(12); {
		case x < 1:
			if op, ok := bulk(); ok {
				ops = append(ops, op)
				break
			}
			ops = append(ops, g.write())
		case x < 8:
			ops = append(ops, g.write())
		case x < 9:
			ops = append(ops, simrt.Op{K: "q", S: []string{g.index, g.expr(2).json()}, I: []int64{0}})
		default:
			ops = append(ops, battery()...)
			ops = append(ops, simrt.Op{K: "restart"})
			ops = append(ops, battery()...)
		}
	}
	ops = append(ops, simrt.Op{K: "restart"})
	ops = append(ops, battery()...)
	return dbPlan(r, 1, 1, ops)
}

// bulkVal: a batch large enough for importValue's direct-write path (estimate over MaxOpN)
// whose changed bits stay under MaxOpN: nothing is logged, only the snapshot makes it durable,
// and every cached row of the fragment is stale afterwards.
func (g *dbGen) bulkVal() (simrt.Op, bool) {
	r := g.r
	for i := range g.fields {
		f := &g.fields[i]
		if span := f.max - f.min; f.typ == "int" && span >= 0 && span <= 4000 {
			lo, hi := f.min, f.max
			if r.Bool(0.4) { // narrow values: many batch entries, few changed bits each
				lo = f.min + span/2
				hi = lo + simrt.Pick(r, int64(0), 1, 3)
				if hi > f.max {
					hi = f.max
				}
			}
			n := simrt.Pick(r, int64(900), 1500, 3600, 5200)
			first := int64(simrt.Pick(r, 0, 1, 2)) << 20
			return simrt.Op{K: "bulkval", S: []string{g.index, f.name}, I: []int64{g.node(), first + int64(r.Intn(50)), n, int64(r.Uint64() >> 2), lo, hi}}, true
		}
	}
	return simrt.Op{}, false
}
