package pilosa_test

// C11: anti-entropy repairs every replica to the per-bit majority.
//
// A simulated cluster of 2-5 nodes with ReplicaN 2-4 holds an index with a set
// field and (in some plans) a time field. Divergence is created on purpose by
// writing to individual replicas through calls that only the addressed node
// applies (API.Import is local; ImportRoaring with remote=true is the route the
// anti-entropy pass itself uses). Before every pass the harness reads what every
// node really holds per (field, view, shard) through API.FragmentBlocks and
// API.FragmentBlockData, computes the expected outcome with plain maps (per
// bit: set iff set on at least half of the owners of the shard), runs
// Server.SyncData on one node and compares every node's contents and block
// checksums with the expectation. The implementation's merge code is not used
// by the oracle.

import (
	"bytes"
	"context"
	"fmt"
	"sort"
	"strings"
	"time"

	"github.com/pilosa/pilosa"
	"github.com/pilosa/pilosa/encoding/proto"
	"verif/simrt"
)

func init() {
	simrt.Register(&simrt.Prop{ID: "C11", Gen: genC11, Exec: execC11})
}

const c11Index = "i"

// "m" (mutex) and "v" (int) exist only under the knob "mf", which the generator
// never sets: hand-written plans use it to show that a pass cannot push repairs
// of such fields at all (the push route refuses them); C11's quantifier names
// standard and time views, so the check's verdict is about "f" and "t".
var c11Fields = []string{"f", "t", "m", "v"}
var c11Quanta = []string{"Y", "YM", "YMD", "D"}

// timestamps used by timestamped imports (index 0 = no timestamp)
var c11Times = []time.Time{
	{},
	time.Date(2018, 1, 2, 3, 4, 0, 0, time.UTC),
	time.Date(2018, 2, 3, 0, 0, 0, 0, time.UTC),
	time.Date(2019, 1, 2, 13, 0, 0, 0, time.UTC),
}

// c11TimeViews lists the external view names ("2018", "201801", ...) a quantum yields for a timestamp.
func c11TimeViews(q string, t time.Time) []string {
	var out []string
	for _, u := range q {
		switch u {
		case 'Y':
			out = append(out, t.Format("2006"))
		case 'M':
			out = append(out, t.Format("200601"))
		case 'D':
			out = append(out, t.Format("20060102"))
		case 'H':
			out = append(out, t.Format("2006010215"))
		}
	}
	return out
}

type c11Bit struct{ row, col uint64 } // col is the offset inside the shard

type c11Key struct {
	field, view string // view is the internal name: "standard", "standard_2018"
	shard       uint64
}

func (k c11Key) String() string { return fmt.Sprintf("%s/%s/shard %d", k.field, k.view, k.shard) }

type c11Frag struct {
	exists bool
	bits   map[c11Bit]bool
	blocks []pilosa.FragmentBlock
}

// c11State is what every node holds: node index -> fragment -> contents.
type c11State map[int]map[c11Key]*c11Frag

type c11Want map[int]map[c11Key]map[c11Bit]bool

type c11 struct {
	c       *simrt.Ctx
	cl      *simCluster
	fields  []string
	shards  []uint64
	owners  map[uint64][]int                   // shard -> node indexes, in the order API.ShardNodes reports them
	touched map[string]map[uint64]map[int]bool // field -> shard -> block ids written by the plan (any view)
	written map[uint64]bool
	cur     c11State // contents read after the last pass; nil when writes happened since
	passes  int
}

func c11Block(b c11Bit) int { return int(b.row / pilosa.HashBlockSize) }

func c11SortBits(m map[c11Bit]bool) []c11Bit {
	out := make([]c11Bit, 0, len(m))
	for b, ok := range m {
		if ok {
			out = append(out, b)
		}
	}
	sort.Slice(out, func(i, j int) bool {
		if out[i].row != out[j].row {
			return out[i].row < out[j].row
		}
		return out[i].col < out[j].col
	})
	return out
}

func c11FmtBits(m map[c11Bit]bool, block int) string {
	var parts []string
	for _, b := range c11SortBits(m) {
		if block >= 0 && c11Block(b) != block {
			continue
		}
		parts = append(parts, fmt.Sprintf("(%d,%d)", b.row, b.col))
		if len(parts) > 24 {
			parts = append(parts, "...")
			break
		}
	}
	return "[" + strings.Join(parts, " ") + "]"
}

func c11SortKeys(m map[c11Key]*c11Frag) []c11Key {
	out := make([]c11Key, 0, len(m))
	for k := range m {
		out = append(out, k)
	}
	sort.Slice(out, func(i, j int) bool {
		a, b := out[i], out[j]
		if a.field != b.field {
			return a.field < b.field
		}
		if a.view != b.view {
			return a.view < b.view
		}
		return a.shard < b.shard
	})
	return out
}

func c11HasInt(a []int, x int) bool {
	for _, v := range a {
		if v == x {
			return true
		}
	}
	return false
}

func c11BlocksEq(a, b []pilosa.FragmentBlock) bool {
	if len(a) != len(b) {
		return false
	}
	for i := range a {
		if a[i].ID != b[i].ID || !bytes.Equal(a[i].Checksum, b[i].Checksum) {
			return false
		}
	}
	return true
}

func c11FmtBlocks(a []pilosa.FragmentBlock) string {
	var parts []string
	for _, b := range a {
		parts = append(parts, fmt.Sprintf("%d:%x", b.ID, b.Checksum))
		if len(parts) > 12 {
			parts = append(parts, "...")
			break
		}
	}
	return "[" + strings.Join(parts, " ") + "]"
}

func (d *c11) touch(field string, shard uint64, block int) {
	if d.touched[field] == nil {
		d.touched[field] = map[uint64]map[int]bool{}
	}
	if d.touched[field][shard] == nil {
		d.touched[field][shard] = map[int]bool{}
	}
	d.touched[field][shard][block] = true
}

// ---- reading what the replicas hold -------------------------------------------

func (d *c11) readFrag(nd *simNode, field, view string, shard uint64) (*c11Frag, error) {
	ctx := context.Background()
	ser := proto.Serializer{}
	fr := &c11Frag{bits: map[c11Bit]bool{}}
	blocks, err := nd.api.FragmentBlocks(ctx, c11Index, field, view, shard)
	if err == pilosa.ErrFragmentNotFound {
		return fr, nil
	} else if err != nil {
		return nil, fmt.Errorf("FragmentBlocks(%s/%s/%d) on %s: %v", field, view, shard, nd.id, err)
	}
	fr.exists = true
	fr.blocks = blocks
	cand := map[int]bool{}
	for b := range d.touched[field][shard] {
		cand[b] = true
	}
	for i, b := range blocks {
		cand[b.ID] = true
		if i > 0 && blocks[i-1].ID >= b.ID {
			return nil, fmt.Errorf("FragmentBlocks(%s/%s/%d) on %s is not strictly ascending: %s", field, view, shard, nd.id, c11FmtBlocks(blocks))
		}
	}
	for _, b := range simrt.SortedKeys(cand) {
		buf, err := ser.Marshal(&pilosa.BlockDataRequest{Index: c11Index, Field: field, View: view, Shard: shard, Block: uint64(b)})
		if err != nil {
			return nil, err
		}
		out, err := nd.api.FragmentBlockData(ctx, bytes.NewReader(buf))
		if err != nil {
			return nil, fmt.Errorf("FragmentBlockData(%s/%s/%d block %d) on %s: %v", field, view, shard, b, nd.id, err)
		}
		var resp pilosa.BlockDataResponse
		if err := ser.Unmarshal(out, &resp); err != nil {
			return nil, fmt.Errorf("FragmentBlockData(%s/%s/%d block %d) on %s: decode: %v", field, view, shard, b, nd.id, err)
		}
		if len(resp.RowIDs) != len(resp.ColumnIDs) {
			return nil, fmt.Errorf("FragmentBlockData(%s/%s/%d block %d) on %s: %d rows, %d columns", field, view, shard, b, nd.id, len(resp.RowIDs), len(resp.ColumnIDs))
		}
		for i := range resp.RowIDs {
			bit := c11Bit{resp.RowIDs[i], resp.ColumnIDs[i]}
			if c11Block(bit) != b || bit.col >= pilosa.ShardWidth {
				return nil, fmt.Errorf("FragmentBlockData(%s/%s/%d block %d) on %s lists (%d,%d)", field, view, shard, b, nd.id, bit.row, bit.col)
			}
			fr.bits[bit] = true
		}
	}
	return fr, nil
}

func (d *c11) read() c11State {
	views := map[string]map[string]bool{}
	for _, f := range d.fields {
		views[f] = map[string]bool{"standard": true}
	}
	for _, nd := range d.cl.nodes {
		for _, ii := range nd.srv.Holder().Schema() {
			if ii.Name != c11Index {
				continue
			}
			for _, fi := range ii.Fields {
				if views[fi.Name] == nil {
					continue
				}
				for _, vi := range fi.Views {
					views[fi.Name][vi.Name] = true
				}
			}
		}
	}
	st := c11State{}
	for ni, nd := range d.cl.nodes {
		st[ni] = map[c11Key]*c11Frag{}
		for _, f := range d.fields {
			for _, v := range simrt.SortedKeys(views[f]) {
				for _, sh := range d.shards {
					fr, err := d.readFrag(nd, f, v, sh)
					if err != nil {
						d.c.Fail("read-error", "%v", err)
						return nil
					}
					st[ni][c11Key{f, v, sh}] = fr
				}
			}
		}
	}
	return st
}

func (st c11State) frag(node int, k c11Key) *c11Frag {
	if fr := st[node][k]; fr != nil {
		return fr
	}
	return &c11Frag{bits: map[c11Bit]bool{}}
}

// keys returns the union of the fragment keys of two states, sorted.
func c11Keys(a, b c11State) []c11Key {
	all := map[c11Key]*c11Frag{}
	for _, st := range []c11State{a, b} {
		for _, m := range st {
			for k := range m {
				all[k] = nil
			}
		}
	}
	return c11SortKeys(all)
}

// ---- the oracle -----------------------------------------------------------------

// expect computes, from the contents read before a pass run by passNode, what
// every node must hold afterwards: for each fragment of a shard passNode owns
// and each block on which the owners do not all agree, a bit is set iff it is
// set on at least half of the owners; everything else is unchanged.
func (d *c11) expect(before c11State, passNode int) (c11Want, map[c11Key]map[int]bool) {
	want := c11Want{}
	for ni := range d.cl.nodes {
		want[ni] = map[c11Key]map[c11Bit]bool{}
		for k, fr := range before[ni] {
			m := map[c11Bit]bool{}
			for b, ok := range fr.bits {
				if ok {
					m[b] = true
				}
			}
			want[ni][k] = m
		}
	}
	differed := map[c11Key]map[int]bool{}
	for _, k := range c11Keys(before, nil) {
		own := d.owners[k.shard]
		if !c11HasInt(own, passNode) {
			continue
		}
		cnt := map[c11Bit]int{}
		for _, o := range own {
			for b, ok := range before.frag(o, k).bits {
				if ok {
					cnt[b]++
				}
			}
		}
		diffBlocks := map[int]bool{}
		for b, n := range cnt {
			if n != len(own) {
				diffBlocks[c11Block(b)] = true
			}
		}
		if len(diffBlocks) == 0 {
			continue
		}
		differed[k] = diffBlocks
		for b, n := range cnt {
			if !diffBlocks[c11Block(b)] {
				continue
			}
			set := n*2 >= len(own) // ties resolve as set
			for _, o := range own {
				if want[o][k] == nil {
					want[o][k] = map[c11Bit]bool{}
				}
				if set {
					want[o][k][b] = true
				} else {
					delete(want[o][k], b)
				}
			}
		}
	}
	return want, differed
}

func (d *c11) fmtReplicas(st c11State, k c11Key, block int) string {
	var parts []string
	for _, o := range d.owners[k.shard] {
		fr := st.frag(o, k)
		s := fmt.Sprintf("node%d=%s", o, c11FmtBits(fr.bits, block))
		if !fr.exists {
			s += "(no fragment)"
		}
		parts = append(parts, s)
	}
	return strings.Join(parts, " ")
}

// judge compares the contents after a completed pass with the expectation.
func (d *c11) judge(what string, passNode int, before, after c11State, want c11Want, differed map[c11Key]map[int]bool) bool {
	found := map[string]string{}
	keys := c11Keys(before, after)
	for ni := range d.cl.nodes {
		for _, k := range keys {
			got := after.frag(ni, k).bits
			w := want[ni][k]
			var bad []c11Bit
			for _, b := range c11SortBits(got) {
				if !w[b] {
					bad = append(bad, b)
				}
			}
			for _, b := range c11SortBits(w) {
				if !got[b] {
					bad = append(bad, b)
				}
			}
			for _, bit := range bad {
				blk := c11Block(bit)
				cls := "untouched-block-changed"
				if differed[k][blk] {
					cls = "majority"
				}
				had := before.frag(ni, k).bits[bit]
				other := ""
				if had != got[bit] {
					// the bit changed here although this view did not ask for it: did another view of the same fragment ask for exactly that change on this node?
					for _, k2 := range keys {
						if k2.field != k.field || k2.shard != k.shard || k2.view == k.view {
							continue
						}
						b2, w2 := before.frag(ni, k2).bits[bit], want[ni][k2][bit]
						if b2 != w2 && w2 == got[bit] {
							cls, other = "wrong-view", k2.view
							break
						}
					}
				}
				if found[cls] != "" {
					continue
				}
				verb := "holds"
				if !got[bit] {
					verb = "lacks"
				}
				msg := fmt.Sprintf("%s: %s block %d: node%d %s bit (row %d, col %d); owners of the shard %v.", what, k, blk, ni, verb, bit.row, bit.col, d.owners[k.shard])
				switch cls {
				case "majority":
					msg += fmt.Sprintf(" The block differed between replicas, so every replica must hold the bits set on at least half of the %d replicas (ties set): expected %s, node%d has %s.", len(d.owners[k.shard]), c11FmtBits(w, blk), ni, c11FmtBits(got, blk))
				case "wrong-view":
					msg += fmt.Sprintf(" View %s did not call for this change (expected %s, node%d has %s); the repair of view %s of the same shard called for exactly this change on node%d (there: before %s, expected %s, now %s): the repair seems to have landed in another view than it was computed for.",
						k.view, c11FmtBits(w, blk), ni, c11FmtBits(got, blk), other, ni, c11FmtBits(before.frag(ni, c11Key{k.field, other, k.shard}).bits, blk), c11FmtBits(want[ni][c11Key{k.field, other, k.shard}], blk), c11FmtBits(after.frag(ni, c11Key{k.field, other, k.shard}).bits, blk))
				default:
					if !c11HasInt(d.owners[k.shard], passNode) {
						msg += fmt.Sprintf(" node%d does not own this shard, so its pass must leave it alone.", passNode)
					} else if !c11HasInt(d.owners[k.shard], ni) {
						msg += fmt.Sprintf(" node%d is not a replica of this shard.", ni)
					} else {
						msg += " All replicas agreed on this block before the pass, so it must stay as it was."
					}
					msg += fmt.Sprintf(" Expected %s, node%d has %s.", c11FmtBits(w, blk), ni, c11FmtBits(got, blk))
				}
				msg += fmt.Sprintf(" Block contents before the pass: %s; after: %s.", d.fmtReplicas(before, k, blk), d.fmtReplicas(after, k, blk))
				found[cls] = msg
			}
		}
	}
	for _, cls := range []string{"wrong-view", "untouched-block-changed", "majority"} {
		if msg := found[cls]; msg != "" {
			d.c.Fail(cls, "%s", msg)
			return false
		}
	}
	// all replicas of the repaired shards hold the same bits now: their checksum lists must be identical too
	for _, k := range keys {
		own := d.owners[k.shard]
		if !c11HasInt(own, passNode) {
			continue
		}
		if !d.sameChecksums(what, after, k) {
			return false
		}
	}
	return true
}

func (d *c11) sameChecksums(what string, st c11State, k c11Key) bool {
	own := d.owners[k.shard]
	b0 := st.frag(own[0], k).blocks
	for _, o := range own[1:] {
		if bo := st.frag(o, k).blocks; !c11BlocksEq(b0, bo) {
			d.c.Fail("checksums-differ", "%s: %s: node%d and node%d hold the same bits %s but report different block checksums: node%d %s, node%d %s", what, k, own[0], o,
				c11FmtBits(st.frag(o, k).bits, -1), own[0], c11FmtBlocks(b0), o, c11FmtBlocks(bo))
			return false
		}
	}
	return true
}

// weak is the oracle for a pass that reported an error (injected message loss):
// nothing is demanded of the repair itself, but no bit may appear that no
// replica held and no bit that every replica held may disappear; fragments of
// other shards and on other nodes stay as they were.
func (d *c11) weak(what string, passNode int, before, after c11State) bool {
	keys := c11Keys(before, after)
	for ni := range d.cl.nodes {
		for _, k := range keys {
			own := d.owners[k.shard]
			got := after.frag(ni, k).bits
			had := before.frag(ni, k).bits
			all := map[c11Bit]bool{}
			for b := range got {
				all[b] = true
			}
			for b := range had {
				all[b] = true
			}
			for _, bit := range c11SortBits(all) {
				if got[bit] == had[bit] {
					continue
				}
				n := 0
				for _, o := range own {
					if before.frag(o, k).bits[bit] {
						n++
					}
				}
				repaired := c11HasInt(own, passNode) && c11HasInt(own, ni)
				if repaired && n > 0 && n < len(own) {
					continue // replicas disagreed on this bit: either value is acceptable after a failed pass
				}
				cls := "untouched-block-changed"
				for _, k2 := range keys {
					if k2.field != k.field || k2.shard != k.shard || k2.view == k.view {
						continue
					}
					n2 := 0
					for _, o := range own {
						if before.frag(o, k2).bits[bit] {
							n2++
						}
					}
					if n2 > 0 && n2 < len(own) && repaired {
						cls = "wrong-view"
					}
				}
				verb := "gained"
				if !got[bit] {
					verb = "lost"
				}
				d.c.Fail(cls, "%s (the pass reported an error, so only this is demanded: no bit appears that no replica held, no bit disappears that every replica held): %s: node%d %s bit (row %d, col %d), which %d of the %d replicas %v held before. Block before: %s; after: %s",
					what, k, ni, verb, bit.row, bit.col, n, len(own), own, d.fmtReplicas(before, k, c11Block(bit)), d.fmtReplicas(after, k, c11Block(bit)))
				return false
			}
		}
	}
	return true
}

// converged demands identical contents and identical checksum lists on all owners of every fragment.
func (d *c11) converged(what string, st c11State) bool {
	for _, k := range c11Keys(st, nil) {
		own := d.owners[k.shard]
		b0 := st.frag(own[0], k).bits
		for _, o := range own[1:] {
			bo := st.frag(o, k).bits
			same := len(c11SortBits(b0)) == len(c11SortBits(bo))
			for b, ok := range b0 {
				if ok && !bo[b] {
					same = false
				}
			}
			if !same {
				d.c.Fail("no-convergence", "%s: %s: replicas still differ: %s", what, k, d.fmtReplicas(st, k, -1))
				return false
			}
		}
		if !d.sameChecksums(what, st, k) {
			return false
		}
	}
	return true
}

// ---- operations -----------------------------------------------------------------

// settle waits until every node knows every written shard (CreateShardMessage
// is broadcast by a goroutine the write does not wait for beyond 50 ms).
func (d *c11) settle() bool {
	for i := 0; i < 400; i++ {
		ok := true
		for _, nd := range d.cl.nodes {
			av := nd.srv.Holder().Index(c11Index).AvailableShards()
			for sh := range d.written {
				if !av.Contains(sh) {
					ok = false
				}
			}
		}
		if ok {
			return true
		}
		simrt.Sleep(50 * time.Millisecond)
	}
	d.c.Inconclusive("shard-broadcast-pending")
	return false
}

func (d *c11) installFaults() {
	hosts := func(i int64) string {
		if i <= 0 || int(i) > len(d.cl.nodes) {
			return ""
		}
		return d.cl.nodes[i-1].host
	}
	for _, f := range d.c.Plan.Faults {
		nf := &simrt.NetFault{Kind: f.K, Class: f.S, N: int(f.N)}
		if len(f.A) > 0 {
			nf.Arg = f.A[0]
		}
		if len(f.A) > 2 {
			nf.Src, nf.Dst = hosts(f.A[1]), hosts(f.A[2])
		}
		d.cl.net.AddFault(nf)
	}
}

// pass runs one anti-entropy pass on node and judges it.
func (d *c11) pass(node int, faulted bool) bool {
	c := d.c
	if !d.settle() {
		return false
	}
	if d.cur == nil {
		if d.cur = d.read(); d.cur == nil {
			return false
		}
	}
	before := d.cur
	want, differed := d.expect(before, node)
	nblocks := 0
	for _, m := range differed {
		nblocks += len(m)
	}
	firedBefore := d.cl.net.FaultsFired()
	if faulted {
		d.installFaults()
	}
	err := d.cl.nodes[node].srv.SyncData()
	fired := 0
	if faulted {
		d.cl.net.ClearFaults()
		for k, v := range d.cl.net.FaultsFired() {
			if strings.HasPrefix(k, "fault:") {
				fired += v - firedBefore[k]
			}
		}
	}
	d.passes++
	what := fmt.Sprintf("after pass %d = SyncData on node%d", d.passes, node)
	if faulted {
		what += fmt.Sprintf(" with %d injected network faults", fired)
	}
	c.Logf("pass %d node%d faulted=%v fired=%d differing-blocks=%d err=%v", d.passes, node, faulted, fired, nblocks, err != nil)
	after := d.read()
	if after == nil {
		return false
	}
	d.cur = after
	if err != nil {
		if !faulted || fired == 0 {
			c.Fail("sync-error", "SyncData on node%d without network faults returned: %v", node, err)
			return false
		}
		c.Probe("faulted-pass-error")
		return d.weak(what+" returned an error", node, before, after)
	}
	what += " returned nil"
	if faulted && fired > 0 {
		c.Probe("faulted-pass-completed")
	}
	if nblocks > 0 {
		c.Probe("pass-with-differing-blocks")
		c.ProbeN("differing-blocks", nblocks)
	} else {
		c.Probe("pass-nothing-to-repair")
	}
	for k, m := range differed {
		if k.view != "standard" {
			c.Probe("time-view-block-differed")
			std := c11Key{k.field, "standard", k.shard}
			for b := range m {
				if !differed[std][b] {
					c.Probe("time-view-only-divergence")
					break
				}
			}
		}
		for _, o := range d.owners[k.shard] {
			if !before.frag(o, k).exists {
				c.Probe("replica-without-fragment")
			}
			nset, nclr := 0, 0
			for b := range m {
				for bit, w := range want[o][k] {
					if w && c11Block(bit) == b && !before.frag(o, k).bits[bit] {
						nset++
					}
				}
				for bit, h := range before.frag(o, k).bits {
					if h && c11Block(bit) == b && !want[o][k][bit] {
						nclr++
					}
				}
			}
			switch {
			case nset > 0 && nclr > 0:
				c.Probe("replica-needs-sets-and-clears")
			case nclr > 1:
				c.Probe("replica-needs-several-clears")
			case nclr == 1:
				c.Probe("replica-needs-one-clear")
			case nset > 0:
				c.Probe("replica-needs-sets-only")
			default:
				c.Probe("replica-needs-nothing")
			}
		}
	}
	return d.judge(what, node, before, after, want, differed)
}

// c11ExhBit is position j (0..2) of block b in the exhaustive plans: two bits of
// one row in different containers and one bit in the last row of the block.
func c11ExhBit(b, j int) c11Bit {
	switch j {
	case 0:
		return c11Bit{uint64(b) * pilosa.HashBlockSize, 5}
	case 1:
		return c11Bit{uint64(b) * pilosa.HashBlockSize, 70000}
	default:
		return c11Bit{uint64(b)*pilosa.HashBlockSize + pilosa.HashBlockSize - 1, 5}
	}
}

func (d *c11) write(ni int, field string, shard uint64, route int64, clear bool, ts int64, view string, bits []c11Bit) {
	ctx := context.Background()
	nd := d.cl.nodes[ni]
	for _, b := range bits {
		d.touch(field, shard, c11Block(b))
	}
	d.cur = nil
	if len(bits) == 0 {
		return
	}
	var err error
	if route == 9 { // int field: row is the value (knob mf only)
		req := &pilosa.ImportValueRequest{Index: c11Index, Field: field, Shard: shard}
		for _, b := range bits {
			req.ColumnIDs = append(req.ColumnIDs, shard*pilosa.ShardWidth+b.col)
			req.Values = append(req.Values, int64(b.row))
		}
		err = nd.api.ImportValue(ctx, req)
	} else if route == 0 {
		req := &pilosa.ImportRequest{Index: c11Index, Field: field, Shard: shard}
		for _, b := range bits {
			req.RowIDs = append(req.RowIDs, b.row)
			req.ColumnIDs = append(req.ColumnIDs, shard*pilosa.ShardWidth+b.col)
			if ts != 0 {
				req.Timestamps = append(req.Timestamps, c11Times[ts].UnixNano())
			}
		}
		err = nd.api.Import(ctx, req, pilosa.OptImportOptionsClear(clear))
	} else {
		vals := make([]uint64, 0, len(bits))
		for _, b := range bits {
			vals = append(vals, b.row*pilosa.ShardWidth+b.col)
		}
		req := &pilosa.ImportRoaringRequest{Clear: clear, Views: map[string][]byte{view: simrt.EncodePilosa(vals, 0, nil)}}
		if route == 1 {
			err = nd.api.ImportRoaring(ctx, c11Index, field, shard, true, req)
		} else {
			err = nd.ext.ImportRoaring(ctx, nd.uri, c11Index, field, shard, true, req)
		}
	}
	if err != nil {
		d.c.Fail("write-error", "write to node%d only (%s shard %d route %d clear %v view %q, %d bits): %v", ni, field, shard, route, clear, view, len(bits), err)
		return
	}
	d.written[shard] = true
	d.c.Logf("w node%d %s/%q shard %d route %d clear %v ts %d bits %d", ni, field, view, shard, route, clear, ts, len(bits))
}

func (d *c11) apply(op simrt.Op) {
	I := op.I
	switch op.K {
	case "w": // I=[owner ordinal, field, shard, route, clear, timestamp index, (row, col)...] S=[external view name]
		shard := uint64(I[2])
		own := d.owners[shard]
		var bits []c11Bit
		for i := 6; i+1 < len(I); i += 2 {
			bits = append(bits, c11Bit{uint64(I[i]), uint64(I[i+1])})
		}
		d.write(own[int(I[0])%len(own)], c11Fields[I[1]], shard, I[3], I[4] != 0, I[5], op.S[0], bits)
	case "wx": // I=[owner ordinal, field, shard, route, positions, lo, hi, (all)] S=[view]: replica k holds position j of block b iff bit k*positions+j of b is set (or all positions)
		shard := uint64(I[2])
		own := d.owners[shard]
		k, p := int(I[0])%len(own), int(I[4])
		full := len(I) > 7 && I[7] != 0
		if I[0] == 0 && !full {
			d.c.Probe("exhaustive-plan")
			d.c.ProbeN("exhaustive-assignments", int(I[6]-I[5]))
		}
		var bits []c11Bit
		for b := int(I[5]); b < int(I[6]); b++ {
			d.touch(c11Fields[I[1]], shard, b)
			for j := 0; j < p; j++ {
				if full || b>>(uint(k*p+j))&1 == 1 {
					bits = append(bits, c11ExhBit(b, j))
				}
			}
		}
		d.write(own[k], c11Fields[I[1]], shard, I[3], false, 0, op.S[0], bits)
	case "sync": // I=[node]
		d.pass(int(I[0])%len(d.cl.nodes), false)
	case "fsync": // I=[node]: the plan's network faults are active during this pass only
		d.pass(int(I[0])%len(d.cl.nodes), true)
	case "syncall": // I=[node order]
		for _, n := range I {
			if !d.pass(int(n)%len(d.cl.nodes), false) {
				return
			}
		}
		if d.cur != nil {
			d.converged(fmt.Sprintf("after fault-free SyncData on every node (order %v)", I), d.cur)
			d.c.Probe("syncall")
		}
	default:
		panic("c11: unknown op " + op.K)
	}
}

func execC11(c *simrt.Ctx) {
	var d *c11
	var cl *simCluster
	c.S.SetEager(true)
	c.Do("setup", func() {
		cl = newSimCluster(c, int(c.Plan.Knob("nodes", 2)), int(c.Plan.Knob("replicas", 2)))
		if err := cl.start(); err != nil {
			c.Fail("start", "%v", err)
			return
		}
		if !cl.awaitState(pilosa.ClusterStateNormal, 30*time.Second) {
			c.Inconclusive("cluster-not-normal")
			return
		}
		ctx := context.Background()
		if _, err := cl.nodes[0].api.CreateIndex(ctx, c11Index, pilosa.IndexOptions{}); err != nil {
			c.Fail("schema-error", "CreateIndex: %v", err)
			return
		}
		dd := &c11{c: c, cl: cl, fields: []string{"f"}, owners: map[uint64][]int{}, touched: map[string]map[uint64]map[int]bool{}, written: map[uint64]bool{}}
		if _, err := cl.nodes[0].api.CreateField(ctx, c11Index, "f", pilosa.OptFieldTypeSet(pilosa.CacheTypeRanked, 100)); err != nil {
			c.Fail("schema-error", "CreateField f: %v", err)
			return
		}
		if c.Plan.Knob("tf", 0) != 0 {
			q := pilosa.TimeQuantum(c11Quanta[int(c.Plan.Knob("q", 0))%len(c11Quanta)])
			if _, err := cl.nodes[0].api.CreateField(ctx, c11Index, "t", pilosa.OptFieldTypeTime(q, c.Plan.Knob("nsv", 0) != 0)); err != nil {
				c.Fail("schema-error", "CreateField t: %v", err)
				return
			}
			dd.fields = append(dd.fields, "t")
		}
		if c.Plan.Knob("mf", 0) != 0 {
			if _, err := cl.nodes[0].api.CreateField(ctx, c11Index, "m", pilosa.OptFieldTypeMutex(pilosa.CacheTypeRanked, 100)); err != nil {
				c.Fail("schema-error", "CreateField m: %v", err)
				return
			}
			dd.fields = append(dd.fields, "m")
			if _, err := cl.nodes[0].api.CreateField(ctx, c11Index, "v", pilosa.OptFieldTypeInt(0, 1000)); err != nil {
				c.Fail("schema-error", "CreateField v: %v", err)
				return
			}
			dd.fields = append(dd.fields, "v")
		}
		for sh := uint64(0); sh < 3; sh++ {
			dd.shards = append(dd.shards, sh)
			nodes, err := cl.nodes[0].api.ShardNodes(ctx, c11Index, sh)
			if err != nil {
				c.Fail("read-error", "ShardNodes: %v", err)
				return
			}
			for _, n := range nodes {
				for ni, nd := range cl.nodes {
					if nd.id == n.ID {
						dd.owners[sh] = append(dd.owners[sh], ni)
					}
				}
			}
			if len(dd.owners[sh]) != cl.replicas || len(nodes) != cl.replicas {
				c.Fail("read-error", "ShardNodes(shard %d) = %d nodes, ReplicaN = %d", sh, len(nodes), cl.replicas)
				return
			}
			c.Logf("owners shard %d = %v", sh, dd.owners[sh])
		}
		d = dd
		c.State = d
	})
	if c.Stopped() || d == nil {
		c.S.SetEager(true)
		c.Do("teardown", func() {
			if cl != nil {
				cl.closeAll()
			}
		})
		return
	}
	c.S.SetEager(c.Plan.Knob("eager", 0) != 0)
	c.Do("c0", func() {
		for _, op := range c.Plan.Clients[0] {
			if c.Stopped() {
				return
			}
			d.apply(op)
			c.OpDone()
		}
	})
	for k, v := range cl.net.FaultsFired() {
		if strings.HasPrefix(k, "fault:") {
			c.ProbeN(k, v)
		}
	}
	c.S.SetEager(true)
	c.Do("teardown", func() { cl.closeAll() })
}

// ---- generator ------------------------------------------------------------------

func genC11(r *simrt.Rand, tier string) *simrt.Plan {
	nodes := 2 + r.Intn(4)
	maxr := nodes
	if maxr > 4 {
		maxr = 4
	}
	replicas := 2 + r.Intn(maxr-1)
	tf := r.Bool(0.4)
	q := r.Intn(len(c11Quanta))
	nsv := tf && r.Bool(0.2)
	faults := r.Bool(0.3)
	exh := r.Bool(0.15)
	knobs := map[string]int64{"nodes": int64(nodes), "replicas": int64(replicas)}
	if tf {
		knobs["tf"], knobs["q"] = 1, int64(q)
		if nsv {
			knobs["nsv"] = 1
		}
	}
	if r.Bool(0.5) {
		knobs["eager"] = 1
	}
	sched := dbSched(r)
	var ops []simrt.Op
	perm := func() []int64 {
		var out []int64
		for _, i := range r.Perm(nodes) {
			out = append(out, int64(i))
		}
		return out
	}
	// views of the time field a direct roaring write can address
	var tviews []string
	if tf {
		seen := map[string]bool{}
		for _, t := range c11Times[1:] {
			for _, v := range c11TimeViews(c11Quanta[q], t) {
				if !seen[v] {
					seen[v] = true
					tviews = append(tviews, v)
				}
			}
		}
	}
	syncOps := func(withFaults bool) {
		if withFaults {
			ops = append(ops, simrt.Op{K: "fsync", I: []int64{int64(r.Intn(nodes))}})
		} else if r.Bool(0.85) {
			ops = append(ops, simrt.Op{K: "sync", I: []int64{int64(r.Intn(nodes))}})
		}
		ops = append(ops, simrt.Op{K: "syncall", I: perm()})
	}
	if exh {
		// every assignment of <= 3 bit positions of one block to the replicas, one block per assignment
		knobs["exh"] = 1
		knobs["eager"] = 1
		maxBits := 8
		if tier == "thorough" {
			maxBits = 12
		}
		p := 1 + r.Intn(3)
		for p*replicas > 12 {
			p--
		}
		total := 1 << uint(p*replicas)
		lo, hi := 0, total
		if p*replicas > maxBits {
			span := 1 << uint(maxBits)
			lo = r.Intn(total/span) * span
			hi = lo + span
		}
		field, view := int64(0), ""
		if tf && r.Bool(0.6) {
			field = 1
			if nsv || r.Bool(0.7) {
				view = simrt.Pick(r, tviews...)
			}
		}
		shard := int64(r.Intn(3))
		if view != "" && !nsv && r.Bool(0.5) {
			// every replica holds every position in the standard view: only the time view diverges
			for k := 0; k < replicas; k++ {
				ops = append(ops, simrt.Op{K: "wx", I: []int64{int64(k), field, shard, int64(1 + r.Intn(2)), int64(p), int64(lo), int64(hi), 1}, S: []string{""}})
			}
		}
		for k := 0; k < replicas; k++ {
			ops = append(ops, simrt.Op{K: "wx", I: []int64{int64(k), field, shard, int64(1 + r.Intn(2)), int64(p), int64(lo), int64(hi)}, S: []string{view}})
		}
		syncOps(faults)
		sched.MaxSteps = 6000000
	} else {
		rounds := 1
		if r.Bool(0.3) {
			rounds = 2
		}
		cols := []int64{0, 1, 65535, 65536, pilosa.ShardWidth - 1}
		for round := 0; round < rounds; round++ {
			nfields := 1
			if tf {
				nfields = 2
			}
			for fi := 0; fi < nfields; fi++ {
				if nfields == 2 && r.Bool(0.25) {
					continue
				}
				for shard := int64(0); shard < 3; shard++ {
					if !r.Bool(0.5) {
						continue
					}
					// how this group of blocks is written: 0 standard view only, 1 timestamped import (standard + time views), 2 one time view only
					// 3 = per replica either a timestamped import or the same bits into the standard view only, so that the
					// standard view can agree (or hold a majority) where a time view holds a minority
					mode := 0
					if fi == 1 {
						mode = simrt.Pick(r, 1, 1, 2, 2, 0, 3, 3, 3)
						if nsv && (mode == 0 || mode == 3) {
							mode = 2
						}
					}
					ts, view := int64(0), ""
					if mode == 1 || mode == 3 {
						ts = int64(1 + r.Intn(len(c11Times)-1))
					} else if mode == 2 {
						view = simrt.Pick(r, tviews...)
					}
					nb := 1 + r.Intn(3)
					for _, bi := range r.Perm(4)[:nb] {
						block := []int64{0, 1, 2, 5}[bi]
						np := 1 + r.Intn(4)
						var pos [][2]int64
						seen := map[[2]int64]bool{}
						for len(pos) < np {
							row := block*pilosa.HashBlockSize + simrt.Pick(r, int64(0), 0, 1, 50, 99)
							col := simrt.Pick(r, cols...)
							if r.Bool(0.2) {
								col = int64(r.Intn(pilosa.ShardWidth))
							}
							if !seen[[2]int64{row, col}] {
								seen[[2]int64{row, col}] = true
								pos = append(pos, [2]int64{row, col})
							}
						}
						for k := 0; k < replicas; k++ {
							var sub [][2]int64
							switch x := r.Float64(); {
							case x < 0.15: // nothing on this replica
							case x < 0.3:
								sub = pos
							default:
								for _, pp := range pos {
									if r.Bool(0.5) {
										sub = append(sub, pp)
									}
								}
							}
							if len(sub) == 0 {
								continue
							}
							route, tsK := int64(r.Intn(3)), ts
							if mode == 1 {
								route = 0
							} else if mode == 2 {
								route = int64(1 + r.Intn(2))
							} else if mode == 3 {
								if r.Bool(0.4) {
									route = 0
								} else {
									tsK = 0
									if r.Bool(0.5) {
										sub = pos // the standard view agrees more often than not
									}
								}
							}
							I := []int64{int64(k), int64(fi), shard, route, 0, tsK}
							for _, pp := range sub {
								I = append(I, pp[0], pp[1])
							}
							ops = append(ops, simrt.Op{K: "w", I: I, S: []string{view}})
							// now and then take some of them away again on the same replica (clear paths; timestamped clears are rejected by design)
							if mode != 1 && r.Bool(0.12) {
								J := []int64{int64(k), int64(fi), shard, route, 1, 0}
								for _, pp := range sub {
									if r.Bool(0.5) {
										J = append(J, pp[0], pp[1])
									}
								}
								if len(J) > 6 {
									ops = append(ops, simrt.Op{K: "w", I: J, S: []string{view}})
								}
							}
						}
					}
				}
			}
			syncOps(faults && round == 0)
		}
	}
	p := &simrt.Plan{Knobs: knobs, Clients: [][]simrt.Op{ops}, Sched: sched}
	if faults {
		knobs["faults"] = 1
		classes := []string{"fragment-blocks", "fragment-block-data", "import-roaring", "import(-roaring)?", "fragment-block.*"}
		n := 1 + r.Intn(4)
		for i := 0; i < n; i++ {
			f := simrt.Fault{K: simrt.Pick(r, "delay", "delay", "duplicate", "lose-response", "lose-request"), S: simrt.Pick(r, classes...), N: int64(1 + r.Intn(5))}
			if r.Bool(0.15) {
				f.N = 0 // every occurrence
			}
			f.A = []int64{int64(10 + r.Intn(491))}
			if r.Bool(0.3) {
				f.A = append(f.A, int64(r.Intn(nodes+1)), int64(r.Intn(nodes+1)))
			}
			p.Faults = append(p.Faults, f)
		}
	}
	return p
}
