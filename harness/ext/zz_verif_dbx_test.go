package pilosa_test

// Additional query kinds on the logical database harness: Sum/Min/Max (C14),
// Rows/GroupBy/MinRow/MaxRow (C16), all-nodes comparison (C17), TopN (C12),
// twin-field comparison (C28).

import (
	"context"
	"fmt"
	"sort"
	"strings"
	"time"

	"github.com/pilosa/pilosa"
	"verif/simrt"
)

func rowIdents(v interface{}) (pilosa.RowIdentifiers, bool) {
	switch x := v.(type) {
	case pilosa.RowIdentifiers:
		return x, true
	case *pilosa.RowIdentifiers:
		if x == nil {
			return pilosa.RowIdentifiers{}, true
		}
		return *x, true
	}
	return pilosa.RowIdentifiers{}, false
}

func filterArg(s string) (string, *expr) {
	if s == "" {
		return "", nil
	}
	e := parseExpr(s)
	return e.pql(), e
}

// modelRows returns the ascending rows of f with a bit (in column col if >= 0, in [from,to) if given).
func (ix *dbIndex) modelRows(f *dbField, col int64, from, to int64, now time.Time) []uint64 {
	var out []uint64
	timeMode := f.typ == "time" && (from != 0 || to != 0 || f.noStd)
	if timeMode {
		fromT := time.Time{}
		if from != 0 {
			fromT = time.Unix(from, 0).UTC()
		}
		toT := now.AddDate(100, 0, 0)
		if to != 0 {
			toT = time.Unix(to, 0).UTC()
		}
		for r, m := range f.tbits {
			found := false
			for c, tss := range m {
				if col >= 0 && uint64(col) != c {
					continue
				}
				for _, ts := range tss {
					t := time.Unix(ts, 0).UTC()
					if !t.Before(fromT) && t.Before(toT) {
						found = true
					}
				}
			}
			if found {
				out = append(out, r)
			}
		}
	} else {
		for r, m := range f.bits {
			if col >= 0 {
				if m[uint64(col)] {
					out = append(out, r)
				}
			} else if len(m) > 0 {
				out = append(out, r)
			}
		}
	}
	sort.Slice(out, func(i, j int) bool { return out[i] < out[j] })
	return out
}

func dbExtra(d *db, op simrt.Op) bool {
	S, I := op.S, op.I
	now := time.Now()
	switch op.K {
	case "sum", "min", "max": // S=[index,field,filter] I=[node]
		ix, f := d.lookup(S)
		if f == nil || f.typ != "int" {
			return true
		}
		ftxt, fe := filterArg(S[2])
		name := map[string]string{"sum": "Sum", "min": "Min", "max": "Max"}[op.K]
		q := fmt.Sprintf("%s(field=%s)", name, f.name)
		if fe != nil {
			q = fmt.Sprintf("%s(%s, field=%s)", name, ftxt, f.name)
		}
		var filt map[uint64]bool
		if fe != nil {
			var err error
			ix.shiftCrossed = false
			if filt, err = ix.eval(fe, now); err != nil || ix.shiftCrossed {
				return true
			}
		}
		var wv, wc int64
		first := true
		for c, v := range f.vals {
			if filt != nil && !filt[c] {
				continue
			}
			switch op.K {
			case "sum":
				wv += v
				wc++
			case "min":
				if first || v < wv {
					wv, wc = v, 1
				} else if v == wv {
					wc++
				}
			case "max":
				if first || v > wv {
					wv, wc = v, 1
				} else if v == wv {
					wc++
				}
			}
			first = false
		}
		res, err := d.query(d.node(I[0]), ix.name, q)
		if err != nil {
			d.fail("query-error", "%s: %v", q, err)
			return true
		}
		vc, ok := res[0].(pilosa.ValCount)
		if !ok {
			d.fail("query-type", "%s returned %T", q, res[0])
			return true
		}
		if vc.Val != wv || vc.Count != wc {
			d.fail("valcount-"+op.K, "%s on node %d = {%d,%d} want {%d,%d}", q, d.node(I[0]), vc.Val, vc.Count, wv, wc)
			return true
		}
		d.c.Probe("valcount-checked")
		// the field's Go API (all shards are local on a single node; no filter)
		if len(d.cl.nodes) == 1 && fe == nil {
			gf, err := d.cl.nodes[0].api.Field(context.Background(), ix.name, f.name)
			if err != nil || gf == nil {
				return true
			}
			var gv, gc int64
			switch op.K {
			case "sum":
				gv, gc, err = gf.Sum(nil, f.name)
			case "min":
				gv, gc, err = gf.Min(nil, f.name)
			case "max":
				gv, gc, err = gf.Max(nil, f.name)
			}
			if err != nil {
				d.fail("query-error", "Field.%s(%s): %v", name, f.name, err)
				return true
			}
			if gv != wv || gc != wc {
				d.fail("goapi-"+op.K, "Field.%s(nil, %q) = (%d, %d) want (%d, %d)", name, f.name, gv, gc, wv, wc)
				return true
			}
			d.c.Probe("goapi-valcount-checked")
		}
	case "rows": // S=[index,field] I=[node,previous,limit,column,from,to]
		ix, f := d.lookup(S)
		if f == nil || f.typ == "int" {
			return true
		}
		q := "Rows(field=" + f.name
		if I[1] >= 0 {
			q += fmt.Sprintf(", previous=%d", I[1])
		}
		if I[2] > 0 {
			q += fmt.Sprintf(", limit=%d", I[2])
		}
		if I[3] >= 0 {
			q += fmt.Sprintf(", column=%d", I[3])
		}
		from, to := I[4], I[5]
		if f.typ != "time" {
			from, to = 0, 0
		}
		if from != 0 {
			q += fmt.Sprintf(", from='%s'", pqlTime(from))
		}
		if to != 0 {
			q += fmt.Sprintf(", to='%s'", pqlTime(to))
		}
		q += ")"
		want := ix.modelRows(f, I[3], from, to, now)
		if I[1] >= 0 {
			var w2 []uint64
			for _, r := range want {
				if r > uint64(I[1]) {
					w2 = append(w2, r)
				}
			}
			want = w2
		}
		if I[2] > 0 && int64(len(want)) > I[2] {
			want = want[:I[2]]
		}
		res, err := d.query(d.node(I[0]), ix.name, q)
		if err != nil {
			d.fail("query-error", "%s: %v", q, err)
			return true
		}
		got, ok := rowIdents(res[0])
		if !ok {
			d.fail("query-type", "%s returned %T", q, res[0])
			return true
		}
		if !equalU64(got.Rows, want) && !(len(got.Rows) == 0 && len(want) == 0) {
			d.fail("rows", "%s on node %d = %v want %v", q, d.node(I[0]), got.Rows, want)
		}
		d.c.Probe("rows-checked")
	case "rowspage": // S=[index,field] I=[node,pagesize]: page with previous until exhausted
		ix, f := d.lookup(S)
		if f == nil || f.typ == "int" || (f.typ == "time" && f.noStd) {
			return true
		}
		want := ix.modelRows(f, -1, 0, 0, now)
		var all []uint64
		prev := int64(-1)
		for page := 0; page < 50; page++ {
			q := fmt.Sprintf("Rows(field=%s, limit=%d", f.name, I[1])
			if prev >= 0 {
				q += fmt.Sprintf(", previous=%d", prev)
			}
			q += ")"
			res, err := d.query(d.node(I[0]), ix.name, q)
			if err != nil {
				d.fail("query-error", "%s: %v", q, err)
				return true
			}
			gi, _ := rowIdents(res[0])
			got := gi.Rows
			if len(got) == 0 {
				break
			}
			all = append(all, got...)
			prev = int64(got[len(got)-1])
		}
		if !equalU64(all, want) && !(len(all) == 0 && len(want) == 0) {
			d.fail("rows-paging", "Rows(%s) paged by %d on node %d concatenates to %v want %v", f.name, I[1], d.node(I[0]), all, want)
		}
		d.c.Probe("rows-paging-checked")
	case "groupby": // S=[index,f1,f2,filter] I=[node,limit,offset,pagemode]
		d.checkGroupBy(op)
	case "minrow", "maxrow": // S=[index,field,filter] I=[node]
		ix, f := d.lookup(S)
		if f == nil || (f.typ != "set" && f.typ != "mutex") {
			return true
		}
		ftxt, fe := filterArg(S[2])
		name := map[string]string{"minrow": "MinRow", "maxrow": "MaxRow"}[op.K]
		q := fmt.Sprintf("%s(field=%s)", name, f.name)
		if fe != nil {
			q = fmt.Sprintf("%s(%s, field=%s)", name, ftxt, f.name)
		}
		var filt map[uint64]bool
		if fe != nil {
			var err error
			ix.shiftCrossed = false
			if filt, err = ix.eval(fe, now); err != nil || ix.shiftCrossed {
				return true
			}
		}
		var rows []uint64
		for r, m := range f.bits {
			for c := range m {
				if filt == nil || filt[c] {
					rows = append(rows, r)
					break
				}
			}
		}
		sort.Slice(rows, func(i, j int) bool { return rows[i] < rows[j] })
		res, err := d.query(d.node(I[0]), ix.name, q)
		if err != nil {
			d.fail("query-error", "%s: %v", q, err)
			return true
		}
		p, ok := res[0].(pilosa.Pair)
		if !ok {
			d.fail("query-type", "%s returned %T", q, res[0])
			return true
		}
		if len(rows) == 0 {
			if p.Count != 0 {
				d.fail(op.K, "%s on node %d = row %d count %d, but no row has a bit", q, d.node(I[0]), p.ID, p.Count)
			}
			return true
		}
		want := rows[0]
		if op.K == "maxrow" {
			want = rows[len(rows)-1]
		}
		if p.Count == 0 || p.ID != want {
			d.fail(op.K, "%s on node %d = row %d (count %d) want row %d (rows with bits %v)", q, d.node(I[0]), p.ID, p.Count, want, rows)
			return true
		}
		// the count that comes with the row: the row's columns (within the filter) over all
		// shards, whatever the order in which the shards' results arrive (MinRow without a
		// filter reports 1 per shard by design and is only compared between coordinators)
		if fe != nil || op.K == "maxrow" {
			total := uint64(0)
			for c := range f.bits[want] {
				if filt == nil || filt[c] {
					total++
				}
			}
			if p.Count != total {
				d.fail(op.K+"-count", "%s on node %d = row %d with count %d, but the row holds %d columns (within the filter) over all shards", q, d.node(I[0]), p.ID, p.Count, total)
				return true
			}
		}
		for i, nd := range d.cl.nodes {
			if !nd.opened || nd.gone || i == d.node(I[0]) {
				continue
			}
			res2, err := d.query(i, ix.name, q)
			if err != nil {
				d.fail("query-error", "%s on node %d: %v", q, i, err)
				return true
			}
			if p2, _ := res2[0].(pilosa.Pair); p2 != p {
				d.fail(op.K+"-count", "%s = %+v on node %d but %+v on node %d", q, p, d.node(I[0]), p2, i)
				return true
			}
		}
		d.c.Probe("minmaxrow-checked")
	case "allnodes": // S=[index,expr] : same query on every node, all answers equal and equal to the model
		for i, nd := range d.cl.nodes {
			if !nd.opened || nd.gone {
				continue
			}
			d.checkQuery(S[0], parseExpr(S[1]), i, I[0] != 0)
			if d.c.Failed() {
				return true
			}
		}
	case "topn": // S=[index,field,filter] I=[node,n,ids...]
		d.checkTopN(op)
	case "topnn": // S=[index,field,filter] I=[node,n]: TopN without ids on a field whose cache holds every row
		d.checkTopNN(op)
	case "nodedown": // I=[k]: node k becomes unreachable (the process keeps running); reads only until "nodeup"
		var cands []*simNode
		for _, nd := range d.cl.nodes {
			if nd.opened && !nd.gone {
				cands = append(cands, nd)
			}
		}
		if len(cands) < 2 || d.cl.replicas < 2 || d.downNode != nil {
			return true
		}
		nd := cands[int(I[0])%len(cands)]
		d.cl.net.SetDown(nd.host, true)
		nd.gone = true // not used as coordinator by the client while it is down
		d.downNode = nd
		d.c.Probe("node-down-during-reads")
	case "nodeup":
		if d.downNode != nil {
			d.cl.net.SetDown(d.downNode.host, false)
			d.downNode.gone = false
			d.downNode = nil
		}
	default:
		return false
	}
	return true
}

type gcKey [3]uint64

// checkGroupBy: S=[index,f1,f2,filter,(f3)] I=[node,limit,offset,pagemode]. Up to three fields;
// page modes: 0 one call with limit/offset, 1 pages by limit+offset, 2 pages by previous=.
func (d *db) checkGroupBy(op simrt.Op) {
	S, I := op.S, op.I
	ix := d.m.idx[S[0]]
	if ix == nil {
		return
	}
	names := []string{S[1], S[2]}
	if len(S) > 4 {
		names = append(names, S[4])
	}
	var fs []*dbField
	for _, n := range names {
		f := ix.fields[n]
		if f == nil || (f.typ != "set" && f.typ != "mutex") {
			if len(fs) == 0 {
				return
			}
			continue
		}
		fs = append(fs, f)
	}
	if len(fs) == 0 {
		return
	}
	now := time.Now()
	ftxt, fe := filterArg(S[3])
	var filt map[uint64]bool
	if fe != nil {
		var err error
		ix.shiftCrossed = false
		if filt, err = ix.eval(fe, now); err != nil || ix.shiftCrossed {
			return
		}
	}
	// model: all combinations with a nonzero count, ascending
	type gc struct {
		k gcKey
		n uint64
	}
	var want []gc
	var rec func(level int, key gcKey, cols map[uint64]bool)
	rec = func(level int, key gcKey, cols map[uint64]bool) {
		if level == len(fs) {
			if len(cols) > 0 {
				want = append(want, gc{key, uint64(len(cols))})
			}
			return
		}
		for r, m := range fs[level].bits {
			next := map[uint64]bool{}
			for c := range m {
				if level == 0 {
					if filt == nil || filt[c] {
						next[c] = true
					}
				} else if cols[c] {
					next[c] = true
				}
			}
			if len(next) == 0 {
				continue
			}
			k := key
			k[level] = r
			rec(level+1, k, next)
		}
	}
	rec(0, gcKey{}, nil)
	sort.Slice(want, func(i, j int) bool {
		for l := 0; l < 3; l++ {
			if want[i].k[l] != want[j].k[l] {
				return want[i].k[l] < want[j].k[l]
			}
		}
		return false
	})
	childrenWith := func(prev *gcKey) string {
		var cs []string
		for l, f := range fs {
			c := "Rows(field=" + f.name
			if prev != nil {
				c += fmt.Sprintf(", previous=%d", prev[l])
			}
			cs = append(cs, c+")")
		}
		return strings.Join(cs, ", ")
	}
	children := childrenWith(nil)
	run := func(ch, extra string) ([]gc, string, bool) {
		q := "GroupBy(" + ch
		if fe != nil {
			q += ", filter=" + ftxt
		}
		q += extra + ")"
		res, err := d.query(d.node(I[0]), ix.name, q)
		if err != nil {
			d.fail("query-error", "%s: %v", q, err)
			return nil, q, false
		}
		gcs, ok := res[0].([]pilosa.GroupCount)
		if !ok {
			d.fail("query-type", "%s returned %T", q, res[0])
			return nil, q, false
		}
		var out []gc
		for _, g := range gcs {
			var k gcKey
			for l := range g.Group {
				if l < 3 {
					k[l] = g.Group[l].RowID
				}
			}
			out = append(out, gc{k, g.Count})
		}
		return out, q, true
	}
	eq := func(a, b []gc) bool {
		if len(a) != len(b) {
			return false
		}
		for i := range a {
			if a[i] != b[i] {
				return false
			}
		}
		return true
	}
	limit, offset, mode := I[1], I[2], I[3]
	switch mode {
	case 3: // the first child carries limit=: groups over the field's first rows, wherever their shards live
		if limit <= 0 {
			limit = 1
		}
		var rows []uint64
		for r, m := range fs[0].bits {
			if len(m) > 0 {
				rows = append(rows, r)
			}
		}
		sort.Slice(rows, func(i, j int) bool { return rows[i] < rows[j] })
		if int(limit) < len(rows) {
			rows = rows[:limit]
		}
		first := map[uint64]bool{}
		for _, r := range rows {
			first[r] = true
		}
		var w []gc
		for _, g := range want {
			if first[g.k[0]] {
				w = append(w, g)
			}
		}
		var cs []string
		for l, f := range fs {
			c := "Rows(field=" + f.name
			if l == 0 {
				c += fmt.Sprintf(", limit=%d", limit)
			}
			cs = append(cs, c+")")
		}
		got, q, ok := run(strings.Join(cs, ", "), "")
		if !ok {
			return
		}
		if !eq(got, w) {
			d.fail("groupby-child-limit", "%s on node %d of %d = %v want %v (the first %d rows of %s are %v)", q, d.node(I[0]), len(d.cl.nodes), got, w, limit, fs[0].name, rows)
		}
		d.c.Probe("groupby-child-limit")
	case 0: // single call with optional limit/offset
		extra := ""
		w := want
		if offset > 0 {
			extra += fmt.Sprintf(", offset=%d", offset)
			if int(offset) < len(w) {
				w = w[offset:]
			} else {
				w = nil
			}
		}
		if limit > 0 {
			extra += fmt.Sprintf(", limit=%d", limit)
			if int(limit) < len(w) {
				w = w[:limit]
			}
		}
		got, q, ok := run(children, extra)
		if !ok {
			return
		}
		if !eq(got, w) {
			d.fail("groupby", "%s on node %d = %v want %v", q, d.node(I[0]), got, w)
		}
	case 1: // pages by limit+offset must concatenate to the unpaged result
		if limit <= 0 {
			limit = 1
		}
		var all []gc
		for page := int64(0); page < int64(len(want))+10; page++ {
			got, _, ok := run(children, fmt.Sprintf(", limit=%d, offset=%d", limit, page*limit))
			if !ok {
				return
			}
			if len(got) == 0 {
				break
			}
			all = append(all, got...)
			if len(all) > len(want)+5 {
				break
			}
		}
		if !eq(all, want) {
			d.fail("groupby-paging", "GroupBy(%s) paged by limit=%d/offset on node %d concatenates to %v want %v", children, limit, d.node(I[0]), all, want)
		}
	default: // pages by previous= (the last group of the page before) must concatenate to the unpaged result
		if limit <= 0 {
			limit = 1
		}
		var all []gc
		var prev *gcKey
		for page := 0; page < len(want)+10; page++ {
			got, _, ok := run(childrenWith(prev), fmt.Sprintf(", limit=%d", limit))
			if !ok {
				return
			}
			if len(got) == 0 {
				break
			}
			all = append(all, got...)
			k := got[len(got)-1].k
			prev = &k
			if len(all) > len(want)+5 {
				break
			}
		}
		if !eq(all, want) {
			d.fail("groupby-paging", "GroupBy(%s) paged by limit=%d and previous= on node %d concatenates to %v want %v", children, limit, d.node(I[0]), all, want)
		}
	}
	d.c.Probe("groupby-checked")
}

// checkTopNN: TopN(field, n=N) (optionally with a filter row) when every row of the field fits
// in its cache and the caches were just recalculated: the N largest counts, in non-increasing
// order, each pair carrying the exact count of its row (rows with equal counts in any order).
func (d *db) checkTopNN(op simrt.Op) {
	S, I := op.S, op.I
	ix, f := d.lookup(S)
	if f == nil || f.typ != "set" || f.cacheType != pilosa.CacheTypeRanked || f.cacheSize < 50000 || d.downNode != nil {
		return // (with a node unreachable the recalculation request cannot be broadcast)
	}
	now := time.Now()
	ftxt, fe := filterArg(S[2])
	var filt map[uint64]bool
	if fe != nil {
		var err error
		ix.shiftCrossed = false
		if filt, err = ix.eval(fe, now); err != nil || ix.shiftCrossed {
			return
		}
	}
	for _, nd := range d.cl.nodes {
		if nd.opened && !nd.gone {
			if err := nd.api.RecalculateCaches(context.Background()); err != nil {
				d.fail("recalc-error", "%v", err)
				return
			}
		}
	}
	counts := map[uint64]uint64{}
	var sorted []uint64
	rowsInShard := map[uint64]int{}
	perShard := map[uint64]map[uint64]uint64{} // shard -> row -> count
	for r, m := range f.bits {
		n := uint64(0)
		inShard := map[uint64]bool{}
		for c := range m {
			if filt == nil || filt[c] {
				n++
				inShard[c/pilosa.ShardWidth] = true
				if perShard[c/pilosa.ShardWidth] == nil {
					perShard[c/pilosa.ShardWidth] = map[uint64]uint64{}
				}
				perShard[c/pilosa.ShardWidth][r]++
			}
		}
		if n > 0 {
			counts[r] = n
			sorted = append(sorted, n)
		}
		for sh := range inShard {
			rowsInShard[sh]++
		}
	}
	sort.Slice(sorted, func(i, j int) bool { return sorted[i] > sorted[j] })
	n := int(I[1])
	if n <= 0 {
		n = 1
	}
	nonEmpty := len(sorted)
	if n < len(sorted) {
		sorted = sorted[:n]
	}
	// TopN(n) takes the n best rows of every shard as candidates and recounts those: when a
	// shard has more than n rows a globally larger row can lose every per-shard cut, so the
	// exact answer is owed only when every shard's rows all become candidates
	exact := true
	for _, k := range rowsInShard {
		if k > n {
			exact = false
		}
	}
	q := "TopN(" + f.name
	if fe != nil {
		q += ", " + ftxt
	}
	q += fmt.Sprintf(", n=%d)", n)
	res, err := d.query(d.node(I[0]), ix.name, q)
	if err != nil {
		d.fail("query-error", "%s: %v", q, err)
		return
	}
	pairs, ok := res[0].([]pilosa.Pair)
	if !ok {
		d.fail("query-type", "%s returned %T", q, res[0])
		return
	}
	if len(pairs) != len(sorted) {
		d.fail("topn-n", "%s on node %d = %v: %d rows, want %d (largest counts %v)", q, d.node(I[0]), pairs, len(pairs), len(sorted), sorted)
		return
	}
	if !exact {
		// rows that are owed whatever the tie-breaking: among the n best of some shard with no
		// tie at the cut (a certain candidate), and globally among the n best with no tie either
		got := map[uint64]bool{}
		for _, p := range pairs {
			got[p.ID] = true
		}
		for _, r := range simrt.SortedKeys(counts) {
			ge := 0
			for _, c := range counts {
				if c >= counts[r] {
					ge++
				}
			}
			if ge > n || got[r] {
				continue
			}
			for _, sh := range simrt.SortedKeys(perShard) {
				m := perShard[sh]
				if m[r] == 0 {
					continue
				}
				geS := 0
				for _, c := range m {
					if c >= m[r] {
						geS++
					}
				}
				if geS <= n {
					d.fail("topn-n", "%s on node %d = %v lacks row %d: it is among the %d best rows of shard %d (count %d there) and of the whole field (count %d), with no tie at either cut", q, d.node(I[0]), pairs, r, n, sh, m[r], counts[r])
					return
				}
			}
		}
	}
	seen := map[uint64]bool{}
	for i, p := range pairs {
		if !exact {
			if counts[p.ID] != p.Count || seen[p.ID] || (i > 0 && pairs[i-1].Count < p.Count) {
				d.fail("topn-n", "%s on node %d = %v: entry %d is row %d with count %d; the row holds %d (%d non-empty rows; some shard has more than n rows, so only counts, order and length are judged)", q, d.node(I[0]), pairs, i, p.ID, p.Count, counts[p.ID], nonEmpty)
				return
			}
			seen[p.ID] = true
			continue
		}
		if p.Count != sorted[i] || counts[p.ID] != p.Count || seen[p.ID] {
			d.fail("topn-n", "%s on node %d = %v: entry %d is row %d with count %d; the row holds %d and the largest counts are %v", q, d.node(I[0]), pairs, i, p.ID, p.Count, counts[p.ID], sorted)
			return
		}
		seen[p.ID] = true
	}
	d.c.Probe("topn-n-checked")
	if exact {
		d.c.Probe("topn-n-exact")
	}
}

func (d *db) checkTopN(op simrt.Op) {
	S, I := op.S, op.I
	ix, f := d.lookup(S)
	if f == nil || (f.typ != "set" && f.typ != "mutex") || f.cacheType == pilosa.CacheTypeNone {
		return
	}
	now := time.Now()
	ftxt, fe := filterArg(S[2])
	var filt map[uint64]bool
	if fe != nil {
		var err error
		ix.shiftCrossed = false
		if filt, err = ix.eval(fe, now); err != nil || ix.shiftCrossed {
			return
		}
	}
	var ids []string
	req := map[uint64]bool{}
	for _, id := range I[2:] {
		ids = append(ids, fmt.Sprint(id))
		req[uint64(id)] = true
	}
	if len(ids) == 0 {
		return // TopN(n) from the rank cache depends on cache timing; judged at shard level (C12/L2)
	}
	q := "TopN(" + f.name
	if fe != nil {
		q = "TopN(" + f.name + ", " + ftxt
	}
	if I[1] > 0 {
		q += fmt.Sprintf(", n=%d", I[1])
	}
	q += ", ids=[" + strings.Join(ids, ",") + "])"
	res, err := d.query(d.node(I[0]), ix.name, q)
	if err != nil {
		d.fail("query-error", "%s: %v", q, err)
		return
	}
	pairs, ok := res[0].([]pilosa.Pair)
	if !ok {
		d.fail("query-type", "%s returned %T", q, res[0])
		return
	}
	for _, p := range pairs {
		n := uint64(0)
		for c := range f.bits[p.ID] {
			if filt == nil || filt[c] {
				n++
			}
		}
		if !req[p.ID] || p.Count != n {
			d.fail("topn-ids", "%s on node %d = %v: row %d count %d, true count %d", q, d.node(I[0]), pairs, p.ID, p.Count, n)
			return
		}
	}
	d.c.Probe("topn-ids-checked")
}
