package pilosa_test

// Additional query kinds on the logical database harness: Sum/Min/Max (C14),
// Rows/GroupBy/MinRow/MaxRow (C16), all-nodes comparison (C17), TopN (C12),
// twin-field comparison (C28).

import (
	"context"
	"fmt"
	"sort"
	"strings"
	"time"

	"github.com/pilosa/pilosa"
	"verif/simrt"
)

func rowIdents(v interface{}) (pilosa.RowIdentifiers, bool) {
	switch x := v.(type) {
	case pilosa.RowIdentifiers:
		return x, true
	case *pilosa.RowIdentifiers:
		if x == nil {
			return pilosa.RowIdentifiers{}, true
		}
		return *x, true
	}
	return pilosa.RowIdentifiers{}, false
}

func filterArg(s string) (string, *expr) {
	if s == "" {
		return "", nil
	}
	e := parseExpr(s)
	return e.pql(), e
}

// modelRows returns the ascending rows of f with a bit (in column col if >= 0, in [from,to) if given).
func (ix *dbIndex) modelRows(f *dbField, col int64, from, to int64, now time.Time) []uint64 {
	var out []uint64
	timeMode := f.typ == "time" && (from != 0 || to != 0 || f.noStd)
	if timeMode {
		fromT := time.Time{}
		if from != 0 {
			fromT = time.Unix(from, 0).UTC()
		}
		toT := now.AddDate(100, 0, 0)
		if to != 0 {
			toT = time.Unix(to, 0).UTC()
		}
		for r, m := range f.tbits {
			found := false
			for c, tss := range m {
				if col >= 0 && uint64(col) != c {
					continue
				}
				for _, ts := range tss {
					t := time.Unix(ts, 0).UTC()
					if !t.Before(fromT) && t.Before(toT) {
						found = true
					}
				}
			}
			if found {
				out = append(out, r)
			}
		}
	} else {
		for r, m := range f.bits {
			if col >= 0 {
				if m[uint64(col)] {
					out = append(out, r)
				}
			} else if len(m) > 0 {
				out = append(out, r)
			}
		}
	}
	sort.Slice(out, func(i, j int) bool { return out[i] < out[j] })
	return out
}

func dbExtra(d *db, op simrt.Op) bool {
	S, I := op.S, op.I
	now := time.Now()
	switch op.K {
	case "sum", "min", "max": // S=[index,field,filter] I=[node]
		ix, f := d.lookup(S)
		if f == nil || f.typ != "int" {
			return true
		}
		ftxt, fe := filterArg(S[2])
		name := map[string]string{"sum": "Sum", "min": "Min", "max": "Max"}[op.K]
		q := fmt.Sprintf("%s(field=%s)", name, f.name)
		if fe != nil {
			q = fmt.Sprintf("%s(%s, field=%s)", name, ftxt, f.name)
		}
		var filt map[uint64]bool
		if fe != nil {
			var err error
			ix.shiftCrossed = false
			if filt, err = ix.eval(fe, now); err != nil || ix.shiftCrossed {
				return true
			}
		}
		var wv, wc int64
		first := true
		for c, v := range f.vals {
			if filt != nil && !filt[c] {
				continue
			}
			switch op.K {
			case "sum":
				wv += v
				wc++
			case "min":
				if first || v < wv {
					wv, wc = v, 1
				} else if v == wv {
					wc++
				}
			case "max":
				if first || v > wv {
					wv, wc = v, 1
				} else if v == wv {
					wc++
				}
			}
			first = false
		}
		res, err := d.query(d.node(I[0]), ix.name, q)
		if err != nil {
			d.fail("query-error", "%s: %v", q, err)
			return true
		}
		vc, ok := res[0].(pilosa.ValCount)
		if !ok {
			d.fail("query-type", "%s returned %T", q, res[0])
			return true
		}
		if vc.Val != wv || vc.Count != wc {
			d.fail("valcount-"+op.K, "%s on node %d = {%d,%d} want {%d,%d}", q, d.node(I[0]), vc.Val, vc.Count, wv, wc)
			return true
		}
		d.c.Probe("valcount-checked")
		// the field's Go API (all shards are local on a single node; no filter)
		if len(d.cl.nodes) == 1 && fe == nil {
			gf, err := d.cl.nodes[0].api.Field(context.Background(), ix.name, f.name)
			if err != nil || gf == nil {
				return true
			}
			var gv, gc int64
			switch op.K {
			case "sum":
				gv, gc, err = gf.Sum(nil, f.name)
			case "min":
				gv, gc, err = gf.Min(nil, f.name)
			case "max":
				gv, gc, err = gf.Max(nil, f.name)
			}
			if err != nil {
				d.fail("query-error", "Field.%s(%s): %v", name, f.name, err)
				return true
			}
			if gv != wv || gc != wc {
				d.fail("goapi-"+op.K, "Field.%s(nil, %q) = (%d, %d) want (%d, %d)", name, f.name, gv, gc, wv, wc)
				return true
			}
			d.c.Probe("goapi-valcount-checked")
		}
	case "rows": // S=[index,field] I=[node,previous,limit,column,from,to]
		ix, f := d.lookup(S)
		if f == nil || f.typ == "int" {
			return true
		}
		q := "Rows(field=" + f.name
		if I[1] >= 0 {
			q += fmt.Sprintf(", previous=%d", I[1])
		}
		if I[2] > 0 {
			q += fmt.Sprintf(", limit=%d", I[2])
		}
		if I[3] >= 0 {
			q += fmt.Sprintf(", column=%d", I[3])
		}
		from, to := I[4], I[5]
		if f.typ != "time" {
			from, to = 0, 0
		}
		if from != 0 {
			q += fmt.Sprintf(", from='%s'", pqlTime(from))
		}
		if to != 0 {
			q += fmt.Sprintf(", to='%s'", pqlTime(to))
		}
		q += ")"
		want := ix.modelRows(f, I[3], from, to, now)
		if I[1] >= 0 {
			var w2 []uint64
			for _, r := range want {
				if r > uint64(I[1]) {
					w2 = append(w2, r)
				}
			}
			want = w2
		}
		if I[2] > 0 && int64(len(want)) > I[2] {
			want = want[:I[2]]
		}
		res, err := d.query(d.node(I[0]), ix.name, q)
		if err != nil {
			d.fail("query-error", "%s: %v", q, err)
			return true
		}
		got, ok := rowIdents(res[0])
		if !ok {
			d.fail("query-type", "%s returned %T", q, res[0])
			return true
		}
		if !equalU64(got.Rows, want) && !(len(got.Rows) == 0 && len(want) == 0) {
			d.fail("rows", "%s on node %d = %v want %v", q, d.node(I[0]), got.Rows, want)
		}
		d.c.Probe("rows-checked")
	case "rowspage": // S=[index,field] I=[node,pagesize]: page with previous until exhausted
		ix, f := d.lookup(S)
		if f == nil || f.typ == "int" || (f.typ == "time" && f.noStd) {
			return true
		}
		want := ix.modelRows(f, -1, 0, 0, now)
		var all []uint64
		prev := int64(-1)
		for page := 0; page < 50; page++ {
			q := fmt.Sprintf("Rows(field=%s, limit=%d", f.name, I[1])
			if prev >= 0 {
				q += fmt.Sprintf(", previous=%d", prev)
			}
			q += ")"
			res, err := d.query(d.node(I[0]), ix.name, q)
			if err != nil {
				d.fail("query-error", "%s: %v", q, err)
				return true
			}
			gi, _ := rowIdents(res[0])
			got := gi.Rows
			if len(got) == 0 {
				break
			}
			all = append(all, got...)
			prev = int64(got[len(got)-1])
		}
		if !equalU64(all, want) && !(len(all) == 0 && len(want) == 0) {
			d.fail("rows-paging", "Rows(%s) paged by %d on node %d concatenates to %v want %v", f.name, I[1], d.node(I[0]), all, want)
		}
		d.c.Probe("rows-paging-checked")
	case "groupby": // S=[index,f1,f2,filter] I=[node,limit,offset,pagemode]
		d.checkGroupBy(op)
	case "minrow", "maxrow": // S=[index,field,filter] I=[node]
		ix, f := d.lookup(S)
		if f == nil || (f.typ != "set" && f.typ != "mutex") {
			return true
		}
		ftxt, fe := filterArg(S[2])
		name := map[string]string{"minrow": "MinRow", "maxrow": "MaxRow"}[op.K]
		q := fmt.Sprintf("%s(field=%s)", name, f.name)
		if fe != nil {
			q = fmt.Sprintf("%s(%s, field=%s)", name, ftxt, f.name)
		}
		var filt map[uint64]bool
		if fe != nil {
			var err error
			ix.shiftCrossed = false
			if filt, err = ix.eval(fe, now); err != nil || ix.shiftCrossed {
				return true
			}
		}
		var rows []uint64
		for r, m := range f.bits {
			for c := range m {
				if filt == nil || filt[c] {
					rows = append(rows, r)
					break
				}
			}
		}
		sort.Slice(rows, func(i, j int) bool { return rows[i] < rows[j] })
		res, err := d.query(d.node(I[0]), ix.name, q)
		if err != nil {
			d.fail("query-error", "%s: %v", q, err)
			return true
		}
		p, ok := res[0].(pilosa.Pair)
		if !ok {
			d.fail("query-type", "%s returned %T", q, res[0])
			return true
		}
		if len(rows) == 0 {
			if p.Count != 0 {
				d.fail(op.K, "%s on node %d = row %d count %d, but no row has a bit", q, d.node(I[0]), p.ID, p.Count)
			}
			return true
		}
		want := rows[0]
		if op.K == "maxrow" {
			want = rows[len(rows)-1]
		}
		if p.Count == 0 || p.ID != want {
			d.fail(op.K, "%s on node %d = row %d (count %d) want row %d (rows with bits %v)", q, d.node(I[0]), p.ID, p.Count, want, rows)
			return true
		}
		// the count that comes with the row: the row's columns (within the filter) over all
		// shards, whatever the order in which the shards' results arrive (MinRow without a
		// filter reports 1 per shard by design and is only compared between coordinators)
		if fe != nil || op.K == "maxrow" {
			total := uint64(0)
			for c := range f.bits[want] {
				if filt == nil || filt[c] {
					total++
				}
			}
			if p.Count != total {
				d.fail(op.K+"-count", "%s on node %d = row %d with count %d, but the row holds %d columns (within the filter) over all shards", q, d.node(I[0]), p.ID, p.Count, total)
				return true
			}
		}
		for i, nd := range d.cl.nodes {
			if !nd.opened || nd.gone || i == d.node(I[0]) {
				continue
			}
			res2, err := d.query(i, ix.name, q)
			if err != nil {
				d.fail("query-error", "%s on node %d: %v", q, i, err)
				return true
			}
			if p2, _ := res2[0].(pilosa.Pair); p2 != p {
				d.fail(op.K+"-count", "%s = %+v on node %d but %+v on node %d", q, p, d.node(I[0]), p2, i)
				return true
			}
		}
		d.c.Probe("minmaxrow-checked")
	case "allnodes": // S=[index,expr] : same query on every node, all answers equal and equal to the model
		for i, nd := range d.cl.nodes {
			if !nd.opened || nd.gone {
				continue
			}
			d.checkQuery(S[0], parseExpr(S[1]), i, I[0] != 0)
			if d.c.Failed() {
				return true
			}
		}
	case "topn": // S=[index,field,filter] I=[node,n,ids...]
		d.checkTopN(op)
	default:
		return false
	}
	return true
}

type gcKey struct{ a, b uint64 }

func (d *db) checkGroupBy(op simrt.Op) {
	S, I := op.S, op.I
	ix := d.m.idx[S[0]]
	if ix == nil {
		return
	}
	f1, f2 := ix.fields[S[1]], ix.fields[S[2]]
	if f1 == nil || (f1.typ != "set" && f1.typ != "mutex") {
		return
	}
	two := f2 != nil && (f2.typ == "set" || f2.typ == "mutex")
	now := time.Now()
	ftxt, fe := filterArg(S[3])
	var filt map[uint64]bool
	if fe != nil {
		var err error
		ix.shiftCrossed = false
		if filt, err = ix.eval(fe, now); err != nil || ix.shiftCrossed {
			return
		}
	}
	// model: all combinations with a nonzero count, ascending
	type gc struct {
		k gcKey
		n uint64
	}
	var want []gc
	for r1, m1 := range f1.bits {
		if !two {
			n := uint64(0)
			for c := range m1 {
				if filt == nil || filt[c] {
					n++
				}
			}
			if n > 0 {
				want = append(want, gc{gcKey{r1, 0}, n})
			}
			continue
		}
		for r2, m2 := range f2.bits {
			n := uint64(0)
			for c := range m1 {
				if m2[c] && (filt == nil || filt[c]) {
					n++
				}
			}
			if n > 0 {
				want = append(want, gc{gcKey{r1, r2}, n})
			}
		}
	}
	sort.Slice(want, func(i, j int) bool {
		if want[i].k.a != want[j].k.a {
			return want[i].k.a < want[j].k.a
		}
		return want[i].k.b < want[j].k.b
	})
	children := "Rows(field=" + f1.name + ")"
	if two {
		children += ", Rows(field=" + f2.name + ")"
	}
	run := func(extra string) ([]gc, string, bool) {
		q := "GroupBy(" + children
		if fe != nil {
			q += ", filter=" + ftxt
		}
		q += extra + ")"
		res, err := d.query(d.node(I[0]), ix.name, q)
		if err != nil {
			d.fail("query-error", "%s: %v", q, err)
			return nil, q, false
		}
		gcs, ok := res[0].([]pilosa.GroupCount)
		if !ok {
			d.fail("query-type", "%s returned %T", q, res[0])
			return nil, q, false
		}
		var out []gc
		for _, g := range gcs {
			k := gcKey{a: g.Group[0].RowID}
			if len(g.Group) > 1 {
				k.b = g.Group[1].RowID
			}
			out = append(out, gc{k, g.Count})
		}
		return out, q, true
	}
	eq := func(a, b []gc) bool {
		if len(a) != len(b) {
			return false
		}
		for i := range a {
			if a[i] != b[i] {
				return false
			}
		}
		return true
	}
	limit, offset, mode := I[1], I[2], I[3]
	switch mode {
	case 0: // single call with optional limit/offset
		extra := ""
		w := want
		if offset > 0 {
			extra += fmt.Sprintf(", offset=%d", offset)
			if int(offset) < len(w) {
				w = w[offset:]
			} else {
				w = nil
			}
		}
		if limit > 0 {
			extra += fmt.Sprintf(", limit=%d", limit)
			if int(limit) < len(w) {
				w = w[:limit]
			}
		}
		got, q, ok := run(extra)
		if !ok {
			return
		}
		if !eq(got, w) {
			d.fail("groupby", "%s on node %d = %v want %v", q, d.node(I[0]), got, w)
		}
	case 1: // pages by limit+offset must concatenate to the unpaged result
		if limit <= 0 {
			limit = 1
		}
		var all []gc
		for page := int64(0); page < 40; page++ {
			got, _, ok := run(fmt.Sprintf(", limit=%d, offset=%d", limit, page*limit))
			if !ok {
				return
			}
			if len(got) == 0 {
				break
			}
			all = append(all, got...)
			if len(all) > len(want)+5 {
				break
			}
		}
		if !eq(all, want) {
			d.fail("groupby-paging", "GroupBy(%s) paged by limit=%d/offset on node %d concatenates to %v want %v", children, limit, d.node(I[0]), all, want)
		}
	}
	d.c.Probe("groupby-checked")
}

func (d *db) checkTopN(op simrt.Op) {
	S, I := op.S, op.I
	ix, f := d.lookup(S)
	if f == nil || (f.typ != "set" && f.typ != "mutex") || f.cacheType == pilosa.CacheTypeNone {
		return
	}
	now := time.Now()
	ftxt, fe := filterArg(S[2])
	var filt map[uint64]bool
	if fe != nil {
		var err error
		ix.shiftCrossed = false
		if filt, err = ix.eval(fe, now); err != nil || ix.shiftCrossed {
			return
		}
	}
	var ids []string
	req := map[uint64]bool{}
	for _, id := range I[2:] {
		ids = append(ids, fmt.Sprint(id))
		req[uint64(id)] = true
	}
	if len(ids) == 0 {
		return // TopN(n) from the rank cache depends on cache timing; judged at shard level (C12/L2)
	}
	q := "TopN(" + f.name
	if fe != nil {
		q = "TopN(" + f.name + ", " + ftxt
	}
	if I[1] > 0 {
		q += fmt.Sprintf(", n=%d", I[1])
	}
	q += ", ids=[" + strings.Join(ids, ",") + "])"
	res, err := d.query(d.node(I[0]), ix.name, q)
	if err != nil {
		d.fail("query-error", "%s: %v", q, err)
		return
	}
	pairs, ok := res[0].([]pilosa.Pair)
	if !ok {
		d.fail("query-type", "%s returned %T", q, res[0])
		return
	}
	for _, p := range pairs {
		n := uint64(0)
		for c := range f.bits[p.ID] {
			if filt == nil || filt[c] {
				n++
			}
		}
		if !req[p.ID] || p.Count != n {
			d.fail("topn-ids", "%s on node %d = %v: row %d count %d, true count %d", q, d.node(I[0]), pairs, p.ID, p.Count, n)
			return
		}
	}
	d.c.Probe("topn-ids-checked")
}
