package pilosa_test

// Membership and resize harness: C20 (every node computes the same owners),
// C21 (resize plans copy every newly owned shard from a surviving owner),
// C22 (resize completes or aborts cleanly without stalling).
// It rides on the logical database harness (data + model-checked queries) and
// adds membership operations, message-level observers and message injection.

import (
	"bytes"
	"context"
	"fmt"
	"sort"
	"strings"
	"time"

	"github.com/pilosa/pilosa"
	"github.com/pilosa/pilosa/encoding/proto"
	"verif/simrt"
)

func init() {
	simrt.Register(&simrt.Prop{ID: "C20", Gen: genC20, Exec: execDBOpt(dbOpts{extra: rzExtra, prepare: rzPrepare})})
	simrt.Register(&simrt.Prop{ID: "C21", Gen: genC21, Exec: execDBOpt(dbOpts{extra: rzExtra, prepare: rzPrepare})})
	simrt.Register(&simrt.Prop{ID: "C22", Gen: genC22, Exec: execDBOpt(dbOpts{extra: rzExtra, prepare: rzPrepare}), LeakClass: "blocked-forever"})
}

const (
	msgClusterStatus  = 7
	msgResizeInstr    = 8
	msgResizeComplete = 9
)

type rzComplete struct {
	job  int64
	node string
	err  string
	ok   bool // delivered (HTTP 200)
	raw  []byte
}

type rzState struct {
	completes []rzComplete
	instrs    []*pilosa.ResizeInstruction
	// ownership snapshots taken by "snapowners"
	before        map[string][]string // "index/shard" -> owner ids
	memberBefore  []string
	frags         map[pilosa.VFragKey][][2]uint64 // fragment contents on an owner at the snapshot
	pendingJoin   *simNode
	pendingRemove string
	expectRefused bool
	jobsBefore    int
	unsettled     bool
	pushedN       int // live nodes at the last state exchange
	gate          *gateState
	tableA        map[string][]string // owner table of the first cluster (wide mode)
	partsSeen     map[int]bool
	joinErr       error
}

func rzPrepare(d *db) {
	st := &rzState{}
	d.aux = st
	d.preOp = rzPreOp(d)
	p := d.c.Plan
	if seed := p.Knob("idseed", 0); seed != 0 {
		r := simrt.NewRand(uint64(seed))
		ids := map[int]string{}
		d.cl.idFor = func(i int) string {
			if s, ok := ids[i]; ok {
				return s
			}
			s := fmt.Sprintf("%08x-n%d", r.Uint64()&0xffffffff, i)
			ids[i] = s
			return s
		}
	}
	d.cl.net.Taps = append(d.cl.net.Taps, func(ev *simrt.NetEvent) {
		if !strings.HasPrefix(ev.Class, "cluster-message/") || len(ev.ReqBody) < 1 {
			return
		}
		switch ev.ReqBody[0] {
		case msgResizeComplete:
			var m pilosa.ResizeInstructionComplete
			if err := (proto.Serializer{}).Unmarshal(ev.ReqBody[1:], &m); err == nil && m.Node != nil {
				st.completes = append(st.completes, rzComplete{job: m.JobID, node: m.Node.ID, err: m.Error, ok: ev.Err == "" && ev.Status == 200, raw: append([]byte(nil), ev.ReqBody...)})
			}
		case msgResizeInstr:
			var m pilosa.ResizeInstruction
			if err := (proto.Serializer{}).Unmarshal(ev.ReqBody[1:], &m); err == nil && ev.Err == "" {
				st.instrs = append(st.instrs, &m)
			}
		}
	})
}

func (d *db) rz() *rzState { return d.aux.(*rzState) }

// racing ops may run while a membership change is in flight; every other op first
// waits for the change to settle (bounded liveness).
var rzRacing = map[string]bool{"dupjoin": true, "dupcomplete": true, "errcomplete": true, "unknownjob": true, "abort": true, "netfault": true, "clearfaults": true, "sleep": true, "await": true,
	"gate": true, "nap": true, "gatewait": true, "reportdown": true, "reportready": true, "leave": true, "back": true, "gatesettle": true}

var rzReadOnly = map[string]bool{"widecheck": true, "rebuild": true, "widereset": true, "allnodes": true, "checkowners": true, "checkplan": true, "checkplacement": true, "join": true, "remove": true, "snapowners": true}

func rzPreOp(d *db) func(op simrt.Op) {
	return func(op simrt.Op) {
		st := d.rz()
		if !rzRacing[op.K] && !rzReadOnly[op.K] {
			st.frags = nil // a write: the fragment snapshot no longer describes the data
		}
		if rzRacing[op.K] {
			return
		}
		if st.unsettled {
			d.settle(90)
		}
		// memberlist exchanges state with a node when it joins; a node that was admitted after
		// the last exchange (by a repeated join event, say) gets the schema here
		if n := len(d.openNodes()); n != st.pushedN && !d.c.Failed() {
			d.pushPull()
		}
	}
}

// ownersOf asks a node for the owners of (index, shard).
func ownersOf(nd *simNode, index string, shard uint64) ([]string, error) {
	nodes, err := nd.api.ShardNodes(context.Background(), index, shard)
	if err != nil {
		return nil, err
	}
	var ids []string
	for _, n := range nodes {
		ids = append(ids, n.ID)
	}
	return ids, nil
}

func (d *db) openNodes() []*simNode {
	var out []*simNode
	for _, nd := range d.cl.nodes {
		if nd.opened && !nd.gone {
			out = append(out, nd)
		}
	}
	return out
}

// shardsInPlay returns (index, shard) pairs to probe: every shard with data in the model plus a fixed spread.
func (d *db) shardsInPlay() [][2]interface{} {
	var out [][2]interface{}
	for name, ix := range d.m.idx {
		seen := map[uint64]bool{}
		add := func(c uint64) { seen[c/pilosa.ShardWidth] = true }
		for _, f := range ix.fields {
			for _, m := range f.bits {
				for c := range m {
					add(c)
				}
			}
			for _, m := range f.tbits {
				for c := range m {
					add(c)
				}
			}
			for c := range f.vals {
				add(c)
			}
		}
		for s := uint64(0); s < 12; s++ {
			seen[s] = true
		}
		var ss []uint64
		for s := range seen {
			ss = append(ss, s)
		}
		sort.Slice(ss, func(i, j int) bool { return ss[i] < ss[j] })
		for _, s := range ss {
			out = append(out, [2]interface{}{name, s})
		}
	}
	sort.Slice(out, func(i, j int) bool {
		if out[i][0].(string) != out[j][0].(string) {
			return out[i][0].(string) < out[j][0].(string)
		}
		return out[i][1].(uint64) < out[j][1].(uint64)
	})
	return out
}

// checkOwners: C20 invariants at membership quiescence.
func (d *db) checkOwners() {
	nodes := d.openNodes()
	if len(nodes) == 0 {
		return
	}
	// only nodes that agree on the member list are compared
	ref := pilosa.VCluster(nodes[0].srv)
	members := append([]string(nil), ref.NodeIDs...)
	sort.Strings(members)
	for _, is := range d.shardsInPlay() {
		index, shard := is[0].(string), is[1].(uint64)
		var first []string
		for _, nd := range nodes {
			info := pilosa.VCluster(nd.srv)
			m2 := append([]string(nil), info.NodeIDs...)
			sort.Strings(m2)
			if fmt.Sprint(m2) != fmt.Sprint(members) {
				continue
			}
			got, err := ownersOf(nd, index, shard)
			if err != nil {
				continue // refused in this cluster state
			}
			want := ref.ReplicaN
			if want < 1 {
				want = 1
			}
			if want > len(members) {
				want = len(members)
			}
			if len(got) != want {
				d.fail("owner-count", "%s: owners of %s/%d = %v, want %d distinct members of %v (ReplicaN %d)", nd.id, index, shard, got, want, members, ref.ReplicaN)
				return
			}
			seen := map[string]bool{}
			for _, id := range got {
				if seen[id] || !contains(members, id) {
					d.fail("owner-count", "%s: owners of %s/%d = %v are not distinct members of %v", nd.id, index, shard, got, members)
					return
				}
				seen[id] = true
			}
			if first == nil {
				first = got
			} else if fmt.Sprint(first) != fmt.Sprint(got) {
				d.fail("owners-disagree", "owners of %s/%d: %s says %v, %s says %v (members %v)", index, shard, nodes[0].id, first, nd.id, got, members)
				return
			}
			// a node treats itself as an owner exactly when it is in the set
			if own := pilosa.VOwnsShard(nd.srv, index, shard); own != seen[nd.id] {
				d.fail("self-ownership", "%s: ownsShard(%s/%d)=%v but owners are %v", nd.id, index, shard, own, got)
				return
			}
		}
	}
	d.c.Probe("owner-sets-compared")
}

func contains(a []string, s string) bool {
	for _, x := range a {
		if x == s {
			return true
		}
	}
	return false
}

// ownerTable asks every node for the owners of shards 0..383 of two indexes and checks the
// per-entry invariants; it returns the table as seen by the nodes (all must agree).
func (d *db) ownerTable() map[string][]string {
	st := d.rz()
	nodes := d.openNodes()
	ref := pilosa.VCluster(nodes[0].srv)
	members := append([]string(nil), ref.NodeIDs...)
	sort.Strings(members)
	want := ref.ReplicaN
	if want < 1 {
		want = 1
	}
	if want > len(members) {
		want = len(members)
	}
	if st.partsSeen == nil {
		st.partsSeen = map[int]bool{}
	}
	tbl := map[string][]string{}
	for _, index := range []string{"i", "other-index"} {
		for shard := uint64(0); shard < 384; shard++ {
			key := fmt.Sprintf("%s/%d", index, shard)
			st.partsSeen[pilosa.VPartition(nodes[0].srv, index, shard)] = true
			for _, nd := range nodes {
				got, err := ownersOf(nd, index, shard)
				if err != nil {
					d.fail("owners-error", "%s: ShardNodes(%s): %v", nd.id, key, err)
					return nil
				}
				seen := map[string]bool{}
				for _, id := range got {
					if seen[id] || !contains(members, id) {
						d.fail("owner-count", "%s: owners of %s = %v are not distinct members of %v", nd.id, key, got, members)
						return nil
					}
					seen[id] = true
				}
				if len(got) != want {
					d.fail("owner-count", "%s: owners of %s = %v, want %d of %v (ReplicaN %d)", nd.id, key, got, want, members, ref.ReplicaN)
					return nil
				}
				if prev, ok := tbl[key]; ok && fmt.Sprint(prev) != fmt.Sprint(got) {
					d.fail("owners-disagree", "owners of %s: %s says %v, another node says %v (members %v)", key, nd.id, got, prev, members)
					return nil
				}
				tbl[key] = got
				if own := pilosa.VOwnsShard(nd.srv, index, shard); own != seen[nd.id] {
					d.fail("self-ownership", "%s: ownsShard(%s)=%v but owners are %v", nd.id, key, own, got)
					return nil
				}
			}
		}
	}
	d.c.ProbeN("owner-table-entries", len(tbl))
	if len(st.partsSeen) == 256 {
		d.c.Probe("all-256-partitions-covered")
	}
	return tbl
}

// checkImportGate: an import for shard s is accepted by node X iff X is an owner.
func (d *db) checkImportGate(index, field string, shard uint64) {
	ix, f := d.lookup([]string{index, field})
	if f == nil || f.typ != "set" {
		return
	}
	col := shard*pilosa.ShardWidth + 77
	for _, nd := range d.openNodes() {
		if nd.api.State() != pilosa.ClusterStateNormal {
			continue
		}
		owners, err := ownersOf(nd, index, shard)
		if err != nil {
			continue
		}
		err = nd.api.Import(context.Background(), &pilosa.ImportRequest{Index: index, Field: field, Shard: shard, RowIDs: []uint64{3}, ColumnIDs: []uint64{col}})
		isOwner := contains(owners, nd.id)
		if isOwner && err != nil {
			d.fail("import-gate", "%s owns %s/%d (owners %v) but refused the import: %v", nd.id, index, shard, owners, err)
			return
		}
		if !isOwner && err == nil {
			d.fail("import-gate", "%s does not own %s/%d (owners %v) but accepted the import", nd.id, index, shard, owners)
			return
		}
		if err == nil {
			f.setBit(3, col, 0)
			if ix.track {
				ix.exists[col] = true
			}
		}
	}
	d.c.Probe("import-gate-checked")
}

// checkPlacement (C21 cleanup clause + conservation): every owner of every shard
// holds exactly the model's bits for the standard view of set fields.
func (d *db) checkPlacement() {
	for name, ix := range d.m.idx {
		for _, f := range ix.fields {
			if f.typ != "set" && f.typ != "mutex" {
				continue
			}
			byShard := map[uint64]map[[2]uint64]bool{}
			for r, m := range f.bits {
				for c := range m {
					s := c / pilosa.ShardWidth
					if byShard[s] == nil {
						byShard[s] = map[[2]uint64]bool{}
					}
					byShard[s][[2]uint64{r, c}] = true
				}
			}
			var shards []uint64
			for s := range byShard {
				shards = append(shards, s)
			}
			sort.Slice(shards, func(i, j int) bool { return shards[i] < shards[j] })
			for _, s := range shards {
				owners, err := ownersOf(d.cl.coordinator(), name, s)
				if err != nil {
					return
				}
				for _, nd := range d.openNodes() {
					if !contains(owners, nd.id) {
						continue
					}
					bits, ok := pilosa.VFragmentBits(nd.srv, pilosa.VFragKey{Index: name, Field: f.name, View: "standard", Shard: s})
					got := map[[2]uint64]bool{}
					for _, b := range bits {
						got[b] = true
					}
					if !ok || len(got) != len(byShard[s]) {
						d.fail("owner-lacks-data", "%s owns %s/%s shard %d (owners %v) but holds %d of %d bits (fragment present: %v)", nd.id, name, f.name, s, owners, len(got), len(byShard[s]), ok)
						return
					}
					for b := range byShard[s] {
						if !got[b] {
							d.fail("owner-lacks-data", "%s owns %s/%s shard %d but lacks bit %v", nd.id, name, f.name, s, b)
							return
						}
					}
				}
			}
		}
	}
	d.c.Probe("placement-checked")
	d.checkConserved()
}

// checkConserved: every fragment that held data at the snapshot is held, bit for bit, by
// every current owner of its shard (no writes happen between the snapshot and this check).
func (d *db) checkConserved() {
	st := d.rz()
	if st.frags == nil {
		return
	}
	keys := make([]pilosa.VFragKey, 0, len(st.frags))
	for k := range st.frags {
		keys = append(keys, k)
	}
	sort.Slice(keys, func(i, j int) bool { return fmt.Sprint(keys[i]) < fmt.Sprint(keys[j]) })
	coord := d.cl.coordinator()
	for _, k := range keys {
		want := st.frags[k]
		if len(want) == 0 {
			continue
		}
		owners, err := ownersOf(coord, k.Index, k.Shard)
		if err != nil {
			return
		}
		for _, nd := range d.openNodes() {
			if !contains(owners, nd.id) {
				continue
			}
			got, _ := pilosa.VFragmentBits(nd.srv, k)
			if fmt.Sprint(got) != fmt.Sprint(want) {
				d.fail("owner-lacks-data", "%s owns shard %d of %s (owners %v) but its fragment %s/%s holds %d bits; an owner before the change held %d", nd.id, k.Shard, k.Index, owners, k.Field, k.View, len(got), len(want))
				return
			}
			d.c.Probe("fragment-conserved")
		}
	}
}

// checkInstructions (C21): every (field, view, shard) a node newly owns has a
// source in its instruction that owned it before and is not the removed node.
func (d *db) checkInstructions() {
	st := d.rz()
	if st.before == nil {
		return
	}
	coord := d.cl.coordinator()
	for _, instr := range st.instrs {
		if instr.Node == nil {
			continue
		}
		target := instr.Node.ID
		have := map[string]string{} // "index/field/view/shard" -> source node
		for _, src := range instr.Sources {
			if src.Node == nil {
				d.fail("plan-source", "instruction for %s names no source node for %s/%s/%s/%d", target, src.Index, src.Field, src.View, src.Shard)
				return
			}
			have[fmt.Sprintf("%s/%s/%s/%d", src.Index, src.Field, src.View, src.Shard)] = src.Node.ID
			key := fmt.Sprintf("%s/%d", src.Index, src.Shard)
			if ob, ok := st.before[key]; ok && !contains(ob, src.Node.ID) {
				d.fail("plan-source", "instruction for %s copies %s/%s/%s shard %d from %s, which did not own it before (owners before: %v)", target, src.Index, src.Field, src.View, src.Shard, src.Node.ID, ob)
				return
			}
			if src.Node.ID == st.pendingRemove && st.pendingRemove != "" {
				d.fail("plan-source", "instruction for %s copies shard %d of %s from %s, the node being removed", target, src.Shard, src.Index, src.Node.ID)
				return
			}
		}
		// newly owned = owners-after minus owners-before, for shards that hold data
		for _, is := range d.shardsInPlay() {
			index, shard := is[0].(string), is[1].(uint64)
			after, err := ownersOf(coord, index, shard)
			if err != nil {
				return
			}
			key := fmt.Sprintf("%s/%d", index, shard)
			if !contains(after, target) || contains(st.before[key], target) {
				continue
			}
			// every fragment (field, view) of that shard that exists on some node must be listed
			for _, nd := range d.cl.nodes {
				if nd.srv == nil {
					continue
				}
				for _, fk := range pilosa.VFragments(nd.srv) {
					if fk.Index != index || fk.Shard != shard || !contains(st.before[key], nd.id) {
						continue
					}
					k := fmt.Sprintf("%s/%s/%s/%d", fk.Index, fk.Field, fk.View, fk.Shard)
					if _, ok := have[k]; !ok {
						d.fail("plan-missing", "%s newly owns %s shard %d (before %v, after %v) but its instruction (job %d) has no source for %s", target, index, shard, st.before[key], after, instr.JobID, k)
						return
					}
				}
			}
		}
	}
	d.c.ProbeN("instructions-checked", len(st.instrs))
}

func (d *db) snapshotOwners() {
	st := d.rz()
	st.before = map[string][]string{}
	coord := d.cl.coordinator()
	for _, is := range d.shardsInPlay() {
		index, shard := is[0].(string), is[1].(uint64)
		if o, err := ownersOf(coord, index, shard); err == nil {
			st.before[fmt.Sprintf("%s/%d", index, shard)] = o
		}
	}
	st.memberBefore = append([]string(nil), pilosa.VCluster(coord.srv).NodeIDs...)
	st.instrs = nil
	st.frags = map[pilosa.VFragKey][][2]uint64{}
	for _, nd := range d.openNodes() {
		for _, fk := range pilosa.VFragments(nd.srv) {
			if !contains(st.before[fmt.Sprintf("%s/%d", fk.Index, fk.Shard)], nd.id) {
				continue
			}
			bits, _ := pilosa.VFragmentBits(nd.srv, fk)
			if len(bits) > len(st.frags[fk]) {
				st.frags[fk] = bits
			}
		}
	}
}

// awaitQuiet waits until no node is RESIZING/STARTING and no job runs, or the budget elapses.
func (d *db) awaitQuiet(budget time.Duration) bool {
	deadline := time.Now().Add(budget)
	for {
		ok := true
		for _, nd := range d.cl.nodes {
			if nd.srv == nil || nd.gone {
				continue
			}
			if pj := d.rz().pendingJoin; pj == nd && !contains(pilosa.VCluster(d.cl.coordinator().srv).NodeIDs, nd.id) {
				continue // not admitted (yet): judged through the coordinator's view below
			}
			if rm := d.rz().pendingRemove; rm == nd.id && !contains(pilosa.VCluster(d.cl.coordinator().srv).NodeIDs, rm) {
				continue // removed: the cluster no longer talks to it
			}
			info := pilosa.VCluster(nd.srv)
			if nd.opened && (info.State == pilosa.ClusterStateResizing || info.State == pilosa.ClusterStateStarting) {
				ok = false
			}
			if nd.coord && info.JobRunning {
				ok = false
			}
		}
		if st := d.rz(); st.pendingJoin != nil && st.joinErr == nil {
			// the join event is queued on the coordinator; it has taken effect once the
			// node is a member (no data, or job done) or a job was created for it
			ci := pilosa.VCluster(d.cl.coordinator().srv)
			member := contains(ci.NodeIDs, st.pendingJoin.id)
			if !member && ci.JobCount == st.jobsBefore {
				ok = false
			}
			if member && !st.pendingJoin.opened {
				ok = false
			}
		}
		if ok {
			return true
		}
		if time.Now().After(deadline) {
			return false
		}
		simrt.Sleep(100 * time.Millisecond)
	}
}

func (d *db) describe() string {
	var s []string
	for _, nd := range d.cl.nodes {
		if nd.srv == nil {
			continue
		}
		i := pilosa.VCluster(nd.srv)
		s = append(s, fmt.Sprintf("%s{opened=%v state=%s members=%v job=%v}", nd.id, nd.opened, i.State, i.NodeIDs, i.JobRunning))
	}
	return strings.Join(s, " ")
}

func rzExtra(d *db, op simrt.Op) bool {
	st := d.rz()
	S, I := op.S, op.I
	coord := d.cl.coordinator()
	switch op.K {
	case "snapowners":
		d.snapshotOwners()
	case "join":
		nd := d.cl.addNodeSpec()
		st.pendingJoin, st.pendingRemove = nd, ""
		d.last = "join " + nd.id
		st.unsettled = true
		st.jobsBefore = pilosa.VCluster(coord.srv).JobCount
		st.joinErr = d.cl.joinNodeAsync(nd)
		if st.joinErr != nil {
			d.c.Logf("join %s: %v", nd.id, st.joinErr)
		}
	case "remove": // I=[node index (not the coordinator)]
		var victim *simNode
		cands := d.openNodes()
		if len(cands) < 2 {
			return true
		}
		victim = cands[1+int(I[0])%(len(cands)-1)]
		st.pendingJoin, st.pendingRemove = nil, victim.id
		d.last = "remove " + victim.id
		_, err := coord.api.RemoveNode(victim.id)
		st.expectRefused = err != nil
		if err != nil {
			// refusal is legal only when some shard has no surviving owner
			info := pilosa.VCluster(coord.srv)
			if info.ReplicaN > 1 && len(info.NodeIDs) > 1 && !strings.Contains(err.Error(), "not allowed in state") && !strings.Contains(err.Error(), "must be") {
				d.fail("remove-refused", "RemoveNode(%s) refused with ReplicaN=%d members=%v: %v", victim.id, info.ReplicaN, info.NodeIDs, err)
			}
			st.pendingRemove = ""
			d.c.Probe("remove-refused")
			return true
		}
		st.unsettled = true
		d.c.Probe("remove-started")
	case "abort":
		err := coord.api.ResizeAbort()
		d.c.Logf("abort: %v", err)
		d.last += "+abort"
		d.c.Probe("abort-requested")
	case "dupcomplete": // re-deliver the I[0]-th observed completion (duplicate / late)
		if len(st.completes) == 0 {
			return true
		}
		cm := st.completes[int(I[0])%len(st.completes)]
		d.injectMessage(coord, cm.raw, "duplicate completion of "+cm.node)
	case "errcomplete": // a completion reporting failure for the current/last job from node I[0]
		if len(st.completes) == 0 && len(st.instrs) == 0 {
			return true
		}
		var job int64
		if len(st.instrs) > 0 {
			job = st.instrs[len(st.instrs)-1].JobID
		} else {
			job = st.completes[len(st.completes)-1].job
		}
		nodes := d.cl.nodes
		nd := nodes[int(I[0])%len(nodes)]
		m := &pilosa.ResizeInstructionComplete{JobID: job, Node: nd.node(), Error: "simulated: copying remote shard failed"}
		buf, _ := pilosa.MarshalInternalMessage(m, proto.Serializer{})
		d.injectMessage(coord, buf, "failed completion from "+nd.id)
	case "dupjoin": // I=[n]: gossip delivers the pending join event n more times
		if st.pendingJoin == nil {
			return true
		}
		nd := st.pendingJoin
		for k := int64(0); k < I[0]; k++ {
			buf, _ := pilosa.MarshalInternalMessage(&pilosa.NodeEvent{Event: pilosa.NodeJoin, Node: nd.node()}, proto.Serializer{})
			d.injectMessage(coord, buf, "repeated join event of "+nd.id)
		}
	case "unknownjob":
		m := &pilosa.ResizeInstructionComplete{JobID: 424242 + I[0], Node: coord.node()}
		buf, _ := pilosa.MarshalInternalMessage(m, proto.Serializer{})
		d.injectMessage(coord, buf, "completion for an unknown job")
	case "netfault": // S=[kind] I=[msg type, nth, arg]
		d.cl.net.AddFault(&simrt.NetFault{Kind: S[0], Class: fmt.Sprintf("cluster-message/%d", I[0]), N: int(I[1]), Arg: I[2]})
	case "clearfaults":
		d.cl.net.ClearFaults()
	case "await": // I=[seconds]
		d.settle(I[0])
	case "checkowners":
		d.checkOwners()
	case "widecheck": // owners of many (index, shard) pairs from every node; the first call records, later calls compare
		tbl := d.ownerTable()
		if d.c.Failed() {
			return true
		}
		if st.tableA == nil {
			st.tableA = tbl
		} else {
			for _, k := range simrt.SortedKeys(st.tableA) {
				if fmt.Sprint(st.tableA[k]) != fmt.Sprint(tbl[k]) {
					d.fail("owners-depend-on-join-order", "owners of %s: %v when the nodes joined in index order, %v after the same node ids joined in another order", k, st.tableA[k], tbl[k])
					return true
				}
			}
			d.c.Probe("join-orders-compared")
		}
	case "widereset": // forget the recorded owner table (membership changed on purpose)
		st.tableA = nil
	case "rebuild": // I=[perm seed]: same node ids, fresh directories, another join order
		old := d.cl
		var ids []string
		for _, nd := range old.nodes {
			if !nd.gone { // nodes removed from the first cluster are not part of the second
				ids = append(ids, nd.id)
			}
		}
		old.closeAll()
		perm := append([]int{0}, func() []int {
			p := simrt.NewRand(uint64(I[0])).Perm(len(ids) - 1)
			for i := range p {
				p[i]++
			}
			return p
		}()...)
		cl := newSimCluster(d.c, 0, old.replicas)
		cl.poolSize = old.poolSize
		cl.dirPrefix = "b-"
		cl.idFor = func(i int) string { return ids[perm[i]] }
		for range ids {
			cl.addNodeSpec()
		}
		d.cl = cl
		if err := cl.start(); err != nil {
			d.fail("start", "second cluster: %v", err)
			return true
		}
		if !cl.awaitState(pilosa.ClusterStateNormal, 60*time.Second) {
			d.fail("resize-stalled", "second cluster did not reach NORMAL: %s", d.describe())
		}
	case "checkgate": // S=[index,field] I=[shard]
		d.checkImportGate(S[0], S[1], uint64(I[0]))
	case "checkplan":
		d.checkInstructions()
	case "checkplacement":
		d.checkPlacement()
	default:
		return c26Extra(d, op)
	}
	return true
}

// pushPull plays the part of memberlist's state exchange (gossipMemberSet.LocalState /
// MergeRemoteState): every live node receives every other live node's NodeStatus, which
// is how a node that was given no resize instruction learns the schema.
func (d *db) pushPull() {
	nodes := d.openNodes()
	for _, a := range nodes {
		st := a.nodeStatus()
		for _, b := range nodes {
			if a != b {
				if err := d.cl.deliver(b, st); err != nil {
					d.c.Logf("push/pull %s -> %s: %v", a.id, b.id, err)
				}
			}
		}
	}
	simrt.Sleep(200 * time.Millisecond) // the status handler applies it in a goroutine
	d.rz().pushedN = len(nodes)
}

// settle waits for the pending membership change to finish and checks its outcome.
func (d *db) settle(seconds int64) {
	st := d.rz()
	coord := d.cl.coordinator()
	d.cl.net.ClearFaults()
	if !d.awaitQuiet(time.Duration(seconds) * time.Second) {
		d.fail("resize-stalled", "cluster did not settle within %d simulated seconds after the last fault: %s", seconds, d.describe())
		return
	}
	st.unsettled = false
	d.c.Probe("settled")
	d.pushPull()
	info := pilosa.VCluster(coord.srv)
	if info.JobRunning {
		d.fail("job-still-running", "cluster is %s but a resize job is still current: %s", info.State, d.describe())
		return
	}
	// membership only changes with success from every node that was given work
	if st.pendingJoin != nil && contains(info.NodeIDs, st.pendingJoin.id) && st.memberBefore != nil && !contains(st.memberBefore, st.pendingJoin.id) {
		need := map[string]bool{}
		for _, in := range st.instrs {
			if in.Node != nil {
				need[in.Node.ID] = true
			}
		}
		for _, id := range simrt.SortedKeys(need) {
			okc := false
			for _, cm := range st.completes {
				if cm.node == id && cm.err == "" && cm.ok {
					okc = true
				}
			}
			if !okc {
				d.fail("member-without-success", "coordinator added %s although %s never reported success (completions %v)", st.pendingJoin.id, id, completesString(st.completes))
				return
			}
		}
		d.c.Probe("join-completed")
	}
	if st.pendingJoin != nil && !contains(info.NodeIDs, st.pendingJoin.id) {
		// the job was aborted: the node is not part of the cluster (an operator would restart it)
		st.pendingJoin.gone = true
		d.c.Probe("join-not-admitted")
	}
	if st.pendingRemove != "" {
		if !contains(info.NodeIDs, st.pendingRemove) {
			for _, nd := range d.cl.nodes {
				if nd.id == st.pendingRemove {
					nd.gone = true
				}
			}
			d.c.Probe("remove-completed")
		} else {
			d.c.Probe("remove-not-done")
		}
	}
}

func completesString(cs []rzComplete) string {
	var s []string
	for _, c := range cs {
		s = append(s, fmt.Sprintf("{job %d %s err=%q delivered=%v}", c.job, c.node, c.err, c.ok))
	}
	return strings.Join(s, " ")
}

// injectMessage posts a raw cluster message to a node's real handler in a
// background task (a handler that blocks must not block the client).
func (d *db) injectMessage(to *simNode, raw []byte, what string) {
	d.c.Probe("injected:" + strings.Fields(what)[0])
	d.c.S.GoTask(fmt.Sprintf("inject-%d", d.c.S.Tick()), func() {
		defer func() {
			if r := recover(); r != nil {
				d.fail("handler-panic", "the message handler panicked on %s: %v", what, r)
			}
		}()
		err := to.api.ClusterMessage(context.Background(), bytes.NewReader(raw))
		d.c.Logf("inject %s: %v", what, err)
	})
}

// ---- generators -----------------------------------------------------------------

func rzBase(r *simrt.Rand, nodes, replicas int) (*dbGen, []simrt.Op) {
	g := newDBGen(r, nodes)
	g.noStore = true
	g.noShift = true
	types := []string{"set"}
	for _, t := range []string{"set", "time", "int", "mutex"} {
		if r.Bool(0.5) {
			types = append(types, t)
		}
	}
	ops := g.schema(false, types) // index options do not travel with NodeStatus schemas
	for i := 0; i < 6+r.Intn(14); i++ {
		ops = append(ops, g.write())
	}
	return g, ops
}

func rzQueries(g *dbGen, n int) []simrt.Op {
	var ops []simrt.Op
	for i := 0; i < n; i++ {
		e := g.expr(1 + g.r.Intn(2))
		ops = append(ops, simrt.Op{K: "allnodes", S: []string{g.index, e.json()}, I: []int64{int64(g.r.Intn(2))}})
	}
	return ops
}

func rzPlan(r *simrt.Rand, nodes, replicas int, ops []simrt.Op) *simrt.Plan {
	p := dbPlan(r, nodes, replicas, ops)
	p.Knobs["idseed"] = int64(r.Uint64()>>8) | 1
	return p
}

func genC20(r *simrt.Rand, tier string) *simrt.Plan {
	if r.Bool(0.4) {
		// wide mode: no data (joins need no resize), up to 8 nodes, ReplicaN 0..9, owner table over
		// 768 (index, shard) pairs from every node, then the same ids joined in another order
		nodes := 1 + r.Intn(8)
		ops := []simrt.Op{{K: "widecheck"}}
		if nodes > 2 && r.Bool(0.5) {
			// a node leaves first: the owners computed by the nodes that saw it leave must equal
			// those of a cluster that never knew it
			ops = append(ops, simrt.Op{K: "remove", I: []int64{int64(r.Intn(8))}}, simrt.Op{K: "await", I: []int64{60}}, simrt.Op{K: "widereset"}, simrt.Op{K: "widecheck"})
		}
		if nodes > 2 {
			ops = append(ops, simrt.Op{K: "rebuild", I: []int64{int64(r.Intn(1 << 30))}}, simrt.Op{K: "widecheck"})
		}
		p := rzPlan(r, nodes, r.Intn(10), ops)
		p.Knobs["eager"] = 1
		return p
	}
	nodes := 1 + r.Intn(3)
	replicas := r.Intn(5) // 0..4 (0 is treated as 1 by the cluster)
	g, ops := rzBase(r, nodes, replicas)
	sf := g.field("set")
	ops = append(ops, simrt.Op{K: "checkowners"})
	joins := 1 + r.Intn(3)
	for j := 0; j < joins; j++ {
		ops = append(ops, simrt.Op{K: "snapowners"}, simrt.Op{K: "join"}, simrt.Op{K: "await", I: []int64{60}}, simrt.Op{K: "checkowners"})
		g.nodes++
		if r.Bool(0.5) {
			ops = append(ops, simrt.Op{K: "checkgate", S: []string{g.index, sf.name}, I: []int64{int64(r.Intn(12))}})
		}
		ops = append(ops, rzQueries(g, 1+r.Intn(2))...)
		if r.Bool(0.5) {
			ops = append(ops, g.write())
		}
	}
	ops = append(ops, simrt.Op{K: "checkplacement"})
	p := rzPlan(r, nodes, replicas, ops)
	p.Knobs["eager"] = int64(r.Intn(2))
	return p
}

// rzSecondIndex: in half of the plans a second index, sorted before or after the main one, with
// data of its own, with a field but no data, or with no field at all: the resize job has to cover
// every index, and an index that gives a node nothing to fetch must not decide for the others.
func rzSecondIndex(r *simrt.Rand, g *dbGen) []simrt.Op {
	if r.Bool(0.5) {
		return nil
	}
	name := simrt.Pick(r, "j", "j", "a")
	ops := []simrt.Op{{K: "mkindex", S: []string{name}, I: []int64{0, g.node()}}}
	kind := r.Intn(4)
	if kind > 0 {
		ops = append(ops, simrt.Op{K: "mkfield", S: []string{name, "s", "set", ""}, I: []int64{0, 0, 0, 50000, 0, g.node()}})
	}
	if kind > 1 {
		for k := 0; k < 2+r.Intn(6); k++ {
			ops = append(ops, simrt.Op{K: "set", S: []string{name, "s"}, I: []int64{g.row(), g.col(), g.node(), 0}})
		}
	}
	return ops
}

func genC21(r *simrt.Rand, tier string) *simrt.Plan {
	nodes := 1 + r.Intn(4)
	replicas := 1 + r.Intn(4)
	g, ops := rzBase(r, nodes, replicas)
	ops = append(ops, rzSecondIndex(r, g)...)
	steps := 1 + r.Intn(3)
	for j := 0; j < steps; j++ {
		ops = append(ops, simrt.Op{K: "snapowners"})
		if g.nodes > 1 && r.Bool(0.4) {
			ops = append(ops, simrt.Op{K: "remove", I: []int64{int64(r.Intn(4))}})
		} else {
			ops = append(ops, simrt.Op{K: "join"})
			g.nodes++
		}
		ops = append(ops, simrt.Op{K: "await", I: []int64{60}}, simrt.Op{K: "checkplan"}, simrt.Op{K: "checkowners"}, simrt.Op{K: "checkplacement"})
		ops = append(ops, rzQueries(g, 1+r.Intn(3))...)
		if r.Bool(0.4) {
			ops = append(ops, g.write())
		}
	}
	p := rzPlan(r, nodes, replicas, ops)
	p.Knobs["eager"] = int64(r.Intn(2))
	return p
}

func genC22(r *simrt.Rand, tier string) *simrt.Plan {
	nodes := 1 + r.Intn(3)
	replicas := 1 + r.Intn(3)
	g, ops := rzBase(r, nodes, replicas)
	ops = append(ops, rzSecondIndex(r, g)...)
	noAbort := r.Bool(0.5) // half of the plans stay clear of abort and failed completions
	steps := 1 + r.Intn(3)
	for j := 0; j < steps; j++ {
		ops = append(ops, simrt.Op{K: "snapowners"})
		// message faults placed before the membership change so that they hit its messages
		for k := 0; k < r.Intn(3); k++ {
			kind := simrt.Pick(r, "duplicate", "delay", "delay")
			ops = append(ops, simrt.Op{K: "netfault", S: []string{kind}, I: []int64{int64(simrt.Pick(r, msgResizeInstr, msgResizeComplete, msgClusterStatus)), int64(1 + r.Intn(3)), int64(simrt.Pick(r, 5, 200, 3000))}})
		}
		if g.nodes > 1 && r.Bool(0.35) {
			ops = append(ops, simrt.Op{K: "remove", I: []int64{int64(r.Intn(4))}})
		} else {
			ops = append(ops, simrt.Op{K: "join"})
			g.nodes++
		}
		// events racing with the job
		for k := 0; k < r.Intn(4); k++ {
			switch x := r.Intn(11); {
			case x == 10:
				ops = append(ops, simrt.Op{K: "dupjoin", I: []int64{int64(simrt.Pick(r, 1, 2, 5, 11, 14))}})
			case x < 3:
				ops = append(ops, simrt.Op{K: "dupcomplete", I: []int64{int64(r.Intn(5))}})
			case x < 5:
				ops = append(ops, simrt.Op{K: "unknownjob", I: []int64{int64(r.Intn(3))}})
			case x < 6 && !noAbort:
				ops = append(ops, simrt.Op{K: "errcomplete", I: []int64{int64(r.Intn(4))}})
			case x < 7 && !noAbort:
				ops = append(ops, simrt.Op{K: "abort"})
			default:
				ops = append(ops, simrt.Op{K: "sleep", I: []int64{int64(r.Intn(2))}})
			}
		}
		ops = append(ops, simrt.Op{K: "clearfaults"}, simrt.Op{K: "await", I: []int64{90}})
		// late messages after the job ended
		if r.Bool(0.5) {
			ops = append(ops, simrt.Op{K: "dupcomplete", I: []int64{int64(r.Intn(5))}}, simrt.Op{K: "await", I: []int64{30}})
		}
		ops = append(ops, simrt.Op{K: "checkowners"})
		ops = append(ops, rzQueries(g, 1)...)
	}
	return rzPlan(r, nodes, replicas, ops)
}
