package pilosa_test

// C25: attributes merge, persist and diff correctly.
//
// Row and column attribute stores of a simulated 1-3 node cluster are driven
// through PQL (SetRowAttrs / SetColumnAttrs, single and multi-call = bulk path)
// and through the pilosa.AttrStore Go interface (SetAttrs / SetBulkAttrs), read
// back through Attrs(id), Row(f=..) and column attribute sets, with every map
// the harness handed in or was handed scribbled on afterwards. The model is a
// plain map id -> key -> typed value per node and store.

import (
	"bytes"
	"context"
	"encoding/json"
	"fmt"
	"path/filepath"
	"regexp"
	"sort"
	"strconv"
	"strings"
	"time"

	"github.com/pilosa/pilosa"
	"github.com/pilosa/pilosa/boltdb"
	"verif/simrt"
)

func init() {
	simrt.Register(&simrt.Prop{ID: "C25", Gen: genC25, Exec: execC25})
}

// c25KV is one attribute of an update: key, type code, value text.
// Type codes: s string, i int64, b bool, f float64, n nil (delete);
// gi / gu / gu64: Go int / uint / uint64 handed to the store API (stored as int64).
type c25KV [3]string

// c25Ent is one (store, id, attrs) update. C: 0 = row attrs of field f, 1 = column attrs of index i.
type c25Ent struct {
	C  int     `json:"c"`
	ID uint64  `json:"id"`
	A  []c25KV `json:"a"`
}

const (
	c25Mark  = "zz_scribble"
	c25MarkV = "SCRIBBLE"
)

// ids straddle the attribute block boundaries (block = 100 ids).
var c25IDs = []uint64{0, 1, 99, 100, 101, 199, 200, 250, 100000}

const c25AttrBlock = 100 // documented block size of the attribute stores (boltdb.attrBlockSize is unexported)

func c25Ents(s string) []c25Ent {
	var e []c25Ent
	if err := json.Unmarshal([]byte(s), &e); err != nil {
		panic("c25: bad ents json: " + err.Error())
	}
	return e
}

func c25JSON(e []c25Ent) string { b, _ := json.Marshal(e); return string(b) }

// c25Val returns the value handed to the Go API and the value the model expects to read.
func c25Val(kv c25KV) (api, model interface{}) {
	switch kv[1] {
	case "n":
		return nil, nil
	case "s":
		return kv[2], kv[2]
	case "b":
		return kv[2] == "true", kv[2] == "true"
	case "f":
		f, err := strconv.ParseFloat(kv[2], 64)
		if err != nil {
			panic(err)
		}
		return f, f
	case "i", "gi", "gu", "gu64":
		n, err := strconv.ParseInt(kv[2], 10, 64)
		if err != nil {
			panic(err)
		}
		switch kv[1] {
		case "gi":
			return int(n), n
		case "gu":
			return uint(n), n
		case "gu64":
			return uint64(n), n
		}
		return n, n
	}
	panic("c25: bad type code " + kv[1])
}

var c25BareRE = regexp.MustCompile(`^[A-Za-z][A-Za-z0-9_:-]*$`)

// c25PQLValue renders a value in PQL (the harness's own printer).
func c25PQLValue(kv c25KV) string {
	switch kv[1] {
	case "n":
		return "null"
	case "s":
		s := kv[2]
		h := 0
		for _, ch := range []byte(s) {
			h = h*31 + int(ch)
		}
		h &= 0xffff
		if h%3 == 0 && c25BareRE.MatchString(s) && s != "true" && s != "false" && s != "null" {
			return s
		}
		if h%3 == 1 && !strings.ContainsAny(s, "'\\") {
			return "'" + s + "'"
		}
		return strconv.Quote(s)
	case "f":
		if !strings.Contains(kv[2], ".") {
			return kv[2] + ".0"
		}
		return kv[2]
	}
	return kv[2]
}

func c25PQLCall(e c25Ent) string {
	var args []string
	for _, kv := range e.A {
		args = append(args, kv[0]+"="+c25PQLValue(kv))
	}
	if e.C == 0 {
		return fmt.Sprintf("SetRowAttrs(f, %d, %s)", e.ID, strings.Join(args, ", "))
	}
	return fmt.Sprintf("SetColumnAttrs(%d, %s)", e.ID, strings.Join(args, ", "))
}

func c25Keys(m map[string]interface{}) []string {
	keys := make([]string, 0, len(m))
	for k := range m {
		keys = append(keys, k)
	}
	sort.Strings(keys)
	return keys
}

func c25SortedIDs(m map[uint64]map[string]interface{}) []uint64 {
	ids := make([]uint64, 0, len(m))
	for id := range m {
		ids = append(ids, id)
	}
	sort.Slice(ids, func(i, j int) bool { return ids[i] < ids[j] })
	return ids
}

func c25Fmt(m map[string]interface{}) string {
	if m == nil {
		return "nil"
	}
	var parts []string
	for _, k := range c25Keys(m) {
		parts = append(parts, fmt.Sprintf("%s:%T(%v)", k, m[k], m[k]))
	}
	return "{" + strings.Join(parts, " ") + "}"
}

func c25Copy(m map[string]interface{}) map[string]interface{} {
	o := make(map[string]interface{}, len(m))
	for k, v := range m {
		o[k] = v
	}
	return o
}

// c25Diff compares a read with the model value: "" when equal (type and value).
func c25Diff(got, want map[string]interface{}) string {
	if len(got) == 0 && len(want) == 0 {
		return "" // nil map and empty map both mean "no attributes"
	}
	for k, v := range got {
		if k == c25Mark || v == c25MarkV {
			return "attrs-aliasing"
		}
	}
	if len(got) != len(want) {
		return "attrs-read"
	}
	typ := false
	for k, w := range want {
		g, ok := got[k]
		if !ok {
			return "attrs-read"
		}
		if g == w {
			continue
		}
		if fmt.Sprint(g) == fmt.Sprint(w) {
			typ = true
			continue
		}
		return "attrs-read"
	}
	if typ {
		return "attrs-type"
	}
	return ""
}

// c25IntsBecameFloats: got differs from want only in that int64 values read back as the nearest float64.
func c25IntsBecameFloats(got, want map[string]interface{}) bool {
	if len(got) != len(want) {
		return false
	}
	n := 0
	for k, w := range want {
		g, ok := got[k]
		if !ok {
			return false
		}
		if g == w {
			continue
		}
		wi, ok1 := w.(int64)
		gf, ok2 := g.(float64)
		if !ok1 || !ok2 || float64(wi) != gf {
			return false
		}
		n++
	}
	return n > 0
}

// c25FloatsBecameInts: got differs from want only in that whole float64 values read back as int64.
func c25FloatsBecameInts(got, want map[string]interface{}) bool {
	if len(got) != len(want) {
		return false
	}
	n := 0
	for k, w := range want {
		g, ok := got[k]
		if !ok {
			return false
		}
		if g == w {
			continue
		}
		wf, ok1 := w.(float64)
		gi, ok2 := g.(int64)
		if !ok1 || !ok2 || float64(gi) != wf {
			return false
		}
		n++
	}
	return n > 0
}

// c25OnlyMissing: got equals want except for key (missing, stale, or not deleted).
func c25OnlyMissing(got, want map[string]interface{}, key string) bool {
	for k, w := range want {
		if g, ok := got[k]; k != key && (!ok || g != w) {
			return false
		}
	}
	for k := range got {
		if _, ok := want[k]; k != key && !ok {
			return false
		}
	}
	g, gok := got[key]
	w, wok := want[key]
	return gok != wok || g != w
}

func c25NonASCII(s string) bool {
	for i := 0; i < len(s); i++ {
		if s[i] >= 0x80 {
			return true
		}
	}
	return false
}

// c25OddFloat: the float's %v text is not of the form digits.digits (2, 1e-07, 1e+21).
func c25OddFloat(text string) bool {
	f, err := strconv.ParseFloat(text, 64)
	if err != nil {
		return false
	}
	s := fmt.Sprintf("%v", f)
	return !strings.Contains(s, ".") || strings.Contains(s, "e")
}

// ---- model and executor state ---------------------------------------------------

type c25Store map[uint64]map[string]interface{} // id -> attrs; an id present with an empty map = record written, no attributes left

type c25Node struct{ st [2]c25Store }

type c25 struct {
	c     *simrt.Ctx
	cl    *simCluster
	m     []*c25Node
	scrib int // 0: never scribble on maps handed out by pilosa; 1: always; 2: only on non-empty ones
	undo  []func()
	twinN int
	phase string // "restart" / "sync": class of plain read mismatches found by the check that follows
	over  string // class of read mismatches while verifying a PQL write whose text the parser/printer is known to mangle
	last  string
}

func (d *c25) store(node, kind int) pilosa.AttrStore {
	h := d.cl.nodes[node].srv.Holder()
	if kind == 0 {
		return h.Field("i", "f").RowAttrStore()
	}
	return h.Index("i").ColumnAttrStore()
}

func c25Kind(kind int) string {
	if kind == 0 {
		return "row"
	}
	return "col"
}

// apply merges an update into a model store the way the store documents it.
func (st c25Store) apply(id uint64, kvs []c25KV, bulk bool) {
	if len(kvs) == 0 && !bulk {
		return // SetAttrs ignores empty maps
	}
	m := st[id]
	if m == nil {
		m = map[string]interface{}{}
		st[id] = m
	}
	for _, kv := range kvs {
		_, mv := c25Val(kv)
		if mv == nil {
			delete(m, kv[0])
		} else {
			m[kv[0]] = mv
		}
	}
}

func c25APIMap(kvs []c25KV) map[string]interface{} {
	m := make(map[string]interface{}, len(kvs))
	for _, kv := range kvs {
		av, _ := c25Val(kv)
		m[kv[0]] = av
	}
	return m
}

// scribbleOwn alters a map the harness built and handed to pilosa.
func c25Scribble(m map[string]interface{}) {
	keys := c25Keys(m)
	if len(keys) > 0 {
		m[keys[0]] = c25MarkV
	}
	if len(keys) > 1 {
		delete(m, keys[len(keys)-1])
	}
	m[c25Mark] = c25MarkV
}

// scribbleOut alters a map pilosa handed out (subject to the scrib knob) and
// remembers how to undo it: the process runs many plans and a map shared
// inside pilosa must not leak one run's scribbles into the next.
func (d *c25) scribbleOut(m map[string]interface{}) bool {
	if m == nil || d.scrib == 0 || (d.scrib == 2 && len(m) == 0) {
		return false
	}
	orig := c25Copy(m)
	d.undo = append(d.undo, func() {
		for k := range m {
			delete(m, k)
		}
		for k, v := range orig {
			m[k] = v
		}
	})
	c25Scribble(m)
	d.c.Probe("scribbled-handed-out-map")
	return true
}

func (d *c25) restore() {
	for i := len(d.undo) - 1; i >= 0; i-- {
		d.undo[i]()
	}
	d.undo = nil
}

// judge compares one read with the model and records a violation.
func (d *c25) judge(what string, got, want map[string]interface{}) bool {
	cls := c25Diff(got, want)
	if cls == "" {
		return true
	}
	switch {
	case cls == "attrs-aliasing" && len(want) == 0:
		cls = "attrs-aliasing-empty"
	case cls == "attrs-aliasing":
	case d.over != "" && c25FloatsBecameInts(got, want):
		cls = "pql-float"
	case d.over != "" && c25OnlyMissing(got, want, "field"):
		cls = "pql-key-field"
	case d.over == "pql-unicode":
		cls = d.over
	case d.phase == "sync" && c25IntsBecameFloats(got, want):
		cls = "attrs-sync-int"
	case cls == "attrs-read" && d.phase != "":
		cls = "attrs-" + d.phase
	}
	d.c.Fail(cls, "%s = %s want %s (after %s)", what, c25Fmt(got), c25Fmt(want), d.last)
	return false
}

// readStore reads id through the Go interface, judges it, scribbles on the
// returned map and reads again.
func (d *c25) readStore(node, kind int, id uint64) bool {
	st := d.store(node, kind)
	want := d.m[node].st[kind][id]
	got, err := st.Attrs(id)
	what := fmt.Sprintf("node%d %s store Attrs(%d)", node, c25Kind(kind), id)
	if err != nil {
		d.c.Fail("attrs-read", "%s: %v", what, err)
		return false
	}
	d.c.Logf("attrs n%d %s %d -> %s", node, c25Kind(kind), id, c25Fmt(got))
	if len(want) == 0 {
		d.c.Probe("read-absent-id")
	}
	if !d.judge(what, got, want) {
		return false
	}
	if d.scribbleOut(got) {
		again, err := st.Attrs(id)
		if err != nil {
			d.c.Fail("attrs-read", "%s: %v", what, err)
			return false
		}
		return d.judge(what+" re-read after the caller changed the map returned by the previous Attrs call", again, want)
	}
	return true
}

func (d *c25) fullCheck(node int) bool {
	for kind := 0; kind < 2; kind++ {
		for _, id := range c25IDs {
			if !d.readStore(node, kind, id) {
				return false
			}
		}
	}
	return true
}

// nodesFrom lists all node indexes starting at first (lockstep direct writes).
func (d *c25) nodesFrom(first int) []int {
	n := len(d.cl.nodes)
	out := make([]int, n)
	for i := range out {
		out[i] = (first + i) % n
	}
	return out
}

func (d *c25) node(i int64) int { return int(i) % len(d.cl.nodes) }

func (d *c25) apply(op simrt.Op) {
	c := d.c
	I, S := op.I, op.S
	switch op.K {
	case "pql": // S=[ents] I=[node]: one query, one call per entry
		ents := c25Ents(S[0])
		var calls []string
		bulk := true
		// Features of the query text that the PQL parser / printer have been seen
		// to mangle: findings they cause get their own class.
		var hasUni, hasOddF, hasExpF, hasField bool
		for _, e := range ents {
			calls = append(calls, c25PQLCall(e))
			if e.C != 0 {
				bulk = false
			}
			for _, kv := range e.A {
				if kv[1] == "s" && c25NonASCII(kv[2]) {
					hasUni = true
				}
				if kv[0] == "field" {
					hasField = true
				}
				if kv[1] == "f" && c25OddFloat(kv[2]) {
					hasOddF = true
					if f, _ := strconv.ParseFloat(kv[2], 64); strings.Contains(fmt.Sprint(f), "e") {
						hasExpF = true
					}
				}
			}
		}
		special := ""
		switch {
		case hasUni:
			special = "pql-unicode"
		case hasOddF:
			special = "pql-float"
		case hasField:
			special = "pql-key-field"
		}
		q := strings.Join(calls, " ")
		node := d.node(I[0])
		if _, err := d.cl.query(node, "i", q); err != nil {
			cls := "write-error"
			switch {
			case hasExpF && strings.Contains(err.Error(), "parse error"):
				cls = "pql-float"
			case hasUni:
				cls = "pql-unicode"
			}
			c.Fail(cls, "%s on node %d: %v", q, node, err)
			return
		}
		if bulk && len(ents) > 1 {
			c.Probe("pql-bulk-setrowattrs")
		}
		d.last = fmt.Sprintf("%s on node %d", q, node)
		c.Logf("pql n%d %s", node, q)
		for _, nm := range d.m {
			for _, e := range ents {
				nm.st[e.C].apply(e.ID, e.A, false)
			}
		}
		if special != "" {
			// read back at once on every node so that the finding carries its own class
			c.Probe(special)
			d.over = special
			for n := range d.m {
				for _, e := range ents {
					got, err := d.store(n, e.C).Attrs(e.ID)
					if err != nil {
						c.Fail("attrs-read", "%v", err)
					} else {
						d.judge(fmt.Sprintf("node%d %s store Attrs(%d)", n, c25Kind(e.C), e.ID), got, d.m[n].st[e.C][e.ID])
					}
				}
			}
			d.over = ""
		}
	case "sset": // S=[ents (one)] I=[node, verify]: SetAttrs on every node's store, starting at node
		e := c25Ents(S[0])[0]
		for _, node := range d.nodesFrom(d.node(I[0])) {
			m := c25APIMap(e.A)
			if err := d.store(node, e.C).SetAttrs(e.ID, m); err != nil {
				c.Fail("write-error", "node%d %s store SetAttrs(%d, %s): %v", node, c25Kind(e.C), e.ID, c25Fmt(m), err)
				return
			}
			d.last = fmt.Sprintf("node%d %s store SetAttrs(%d, %s)", node, c25Kind(e.C), e.ID, c25Fmt(m))
			c.Logf("sset n%d %s", node, d.last)
			d.m[node].st[e.C].apply(e.ID, e.A, false)
			if I[1] != 0 && !d.readStore(node, e.C, e.ID) {
				return
			}
			c25Scribble(m) // the caller reuses its map
			d.last += " and the caller then changed the map it had passed in"
			if I[1] != 0 && !d.readStore(node, e.C, e.ID) {
				return
			}
		}
	case "sbulk": // S=[ents, same store, distinct ids] I=[node, verify]: SetBulkAttrs on every node's store
		ents := c25Ents(S[0])
		if len(ents) == 0 {
			return
		}
		kind := ents[0].C
		for _, node := range d.nodesFrom(d.node(I[0])) {
			bm := map[uint64]map[string]interface{}{}
			for _, e := range ents {
				bm[e.ID] = c25APIMap(e.A)
			}
			if err := d.store(node, kind).SetBulkAttrs(bm); err != nil {
				c.Fail("write-error", "node%d %s store SetBulkAttrs(%s): %v", node, c25Kind(kind), S[0], err)
				return
			}
			d.last = fmt.Sprintf("node%d %s store SetBulkAttrs(%s)", node, c25Kind(kind), S[0])
			c.Logf("sbulk n%d %s", node, d.last)
			for _, e := range ents {
				d.m[node].st[kind].apply(e.ID, e.A, true)
			}
			for _, e := range ents {
				c25Scribble(bm[e.ID])
			}
			bm[77] = map[string]interface{}{c25Mark: c25MarkV}
			d.last += " and the caller then changed the maps it had passed in"
			if I[1] != 0 {
				for _, e := range ents {
					if !d.readStore(node, kind, e.ID) {
						return
					}
				}
			}
		}
	case "sbulkbad": // S=[ents] I=[node]: SetBulkAttrs with an extra, higher id carrying a value of an unsupported type
		ents := c25Ents(S[0])
		if len(ents) == 0 {
			return
		}
		kind := ents[0].C
		node := d.node(I[0])
		bm := map[uint64]map[string]interface{}{}
		max := uint64(0)
		for _, e := range ents {
			bm[e.ID] = c25APIMap(e.A)
			if e.ID > max {
				max = e.ID
			}
		}
		bm[max+100000] = map[string]interface{}{"list": []int{1, 2}}
		err := d.store(node, kind).SetBulkAttrs(bm)
		d.last = fmt.Sprintf("node%d %s store SetBulkAttrs(%s plus an id with a list value) = %v", node, c25Kind(kind), S[0], err)
		if err == nil {
			return // a store that accepts such a value: nothing to judge here
		}
		c.Probe("bulk-refused")
		for _, e := range ents {
			if !d.readStore(node, kind, e.ID) {
				return
			}
		}
	case "dset": // S=[ents, same store, fresh keys, no deletes] I=[node, bulk]: written to ONE node's store only
		if len(d.cl.nodes) < 2 {
			return
		}
		ents := c25Ents(S[0])
		if len(ents) == 0 {
			return
		}
		node, kind := d.node(I[0]), ents[0].C
		var err error
		if I[1] != 0 {
			bm := map[uint64]map[string]interface{}{}
			for _, e := range ents {
				bm[e.ID] = c25APIMap(e.A)
			}
			err = d.store(node, kind).SetBulkAttrs(bm)
		} else {
			for _, e := range ents {
				if err == nil {
					err = d.store(node, kind).SetAttrs(e.ID, c25APIMap(e.A))
				}
			}
		}
		if err != nil {
			c.Fail("write-error", "node%d %s store direct write %s: %v", node, c25Kind(kind), S[0], err)
			return
		}
		d.last = fmt.Sprintf("node%d only: %s store write %s", node, c25Kind(kind), S[0])
		c.Logf("dset n%d %s", node, S[0])
		for _, e := range ents {
			d.m[node].st[kind].apply(e.ID, e.A, I[1] != 0)
		}
		c.Probe("single-node-attr-write")
	case "sync": // I=[first node]: SyncData on every node, then all nodes hold the union
		d.sync(d.node(I[0]))
	case "sget": // I=[kind, node, id]
		d.readStore(d.node(I[1]), int(I[0]), uint64(I[2]))
	case "qrow": // I=[node, row, mode]: 0 http, 1 http inside Options(), 2 in-process API
		d.queryRow(d.node(I[0]), uint64(I[1]), int(I[2]))
	case "qcols": // I=[node, mode]: 0 http columnAttrs flag, 1 Options(columnAttrs=true), 2 in-process API
		d.queryCols(d.node(I[0]), int(I[1]))
	case "restart": // I=[full check afterwards]
		if len(d.cl.nodes) != 1 {
			return
		}
		if err := d.cl.restartSingle(); err != nil {
			c.Fail("attrs-restart", "restart: %v", err)
			return
		}
		d.last += " + restart"
		c.Logf("restart")
		c.Probe("restart")
		if len(I) > 0 && I[0] != 0 {
			d.phase = "restart"
			d.fullCheck(0)
			d.phase = ""
		}
	case "blocks": // I=[kind, node, pick, mode]
		d.blocks(int(I[0]), d.node(I[1]), int(I[2]), int(I[3]))
	default:
		panic("c25: unknown op " + op.K)
	}
}

func (d *c25) sync(first int) {
	c := d.c
	before := make([]string, len(d.m))
	for i := range d.m {
		before[i] = c25FmtStore(d.m[i].st[0]) + " | " + c25FmtStore(d.m[i].st[1])
	}
	for _, node := range d.nodesFrom(first) {
		if err := d.cl.nodes[node].srv.SyncData(); err != nil {
			c.Fail("attrs-sync", "node%d SyncData: %v", node, err)
			return
		}
	}
	c.Logf("sync from n%d", first)
	c.Probe("sync")
	// Model: writes never conflict (single-node writes use fresh keys and never
	// delete; everything else reaches every node), so every node ends with the union.
	for kind := 0; kind < 2; kind++ {
		union := c25Store{}
		for _, nm := range d.m {
			for id, m := range nm.st[kind] {
				u := union[id]
				if u == nil {
					u = map[string]interface{}{}
					union[id] = u
				}
				for k, v := range m {
					if old, ok := u[k]; ok && old != v {
						panic(fmt.Sprintf("c25 harness bug: conflicting values for %s id %d key %s", c25Kind(kind), id, k))
					}
					u[k] = v
				}
			}
		}
		for _, nm := range d.m {
			diverged := false
			for id, u := range union {
				if c25Diff(nm.st[kind][id], u) != "" {
					diverged = true
				}
			}
			if diverged {
				c.Probe("sync-repaired-a-node")
			}
			nm.st[kind] = c25Store{}
			for id, u := range union {
				nm.st[kind][id] = c25Copy(u)
			}
		}
	}
	d.last = "SyncData on every node; per-node contents before: " + strings.Join(before, " || ")
	d.phase = "sync"
	defer func() { d.phase = "" }()
	for node := range d.m {
		if !d.fullCheck(node) {
			return
		}
	}
	for kind := 0; kind < 2; kind++ {
		b0, err := d.store(0, kind).Blocks()
		if err != nil {
			c.Fail("attrs-sync", "Blocks: %v", err)
			return
		}
		for node := 1; node < len(d.m); node++ {
			bn, err := d.store(node, kind).Blocks()
			if err != nil {
				c.Fail("attrs-sync", "Blocks: %v", err)
				return
			}
			if diff := c25BlockDiff(b0, bn); len(diff) > 0 {
				c.Fail("attrs-sync", "after SyncData on every node the %s stores of node0 and node%d read the same attributes but their block checksums differ in blocks %v", c25Kind(kind), node, diff)
				return
			}
		}
	}
}

func c25FmtStore(st c25Store) string {
	var parts []string
	for _, id := range c25SortedIDs(st) {
		parts = append(parts, fmt.Sprintf("%d:%s", id, c25Fmt(st[id])))
	}
	return "[" + strings.Join(parts, " ") + "]"
}

func (d *c25) queryRow(node int, row uint64, mode int) {
	c := d.c
	want := d.m[node].st[0][row]
	q := fmt.Sprintf("Row(f=%d)", row)
	if mode == 1 {
		q = "Options(" + q + ", excludeColumns=true)"
	}
	what := fmt.Sprintf("%s on node %d (mode %d) row attrs", q, node, mode)
	if mode == 2 {
		resp, err := d.cl.nodes[node].api.Query(context.Background(), &pilosa.QueryRequest{Index: "i", Query: q})
		if err != nil {
			c.Fail("query-error", "%s: %v", what, err)
			return
		}
		r, ok := resp.Results[0].(*pilosa.Row)
		if !ok {
			c.Fail("query-error", "%s returned %T", what, resp.Results[0])
			return
		}
		c.Logf("qrow api n%d %d -> %s", node, row, c25Fmt(r.Attrs))
		if !d.judge(what, r.Attrs, want) {
			return
		}
		if d.scribbleOut(r.Attrs) {
			again, err := d.store(node, 0).Attrs(row)
			if err != nil {
				c.Fail("attrs-read", "%v", err)
				return
			}
			d.judge(fmt.Sprintf("node%d row store Attrs(%d) after the caller changed the Attrs map of the Row returned by API.Query(%s)", node, row, q), again, want)
		}
		return
	}
	res, err := d.cl.query(node, "i", q)
	if err != nil {
		c.Fail("query-error", "%s: %v", what, err)
		return
	}
	r, ok := res[0].(*pilosa.Row)
	if !ok {
		c.Fail("query-error", "%s returned %T", what, res[0])
		return
	}
	c.Logf("qrow n%d %d -> %s", node, row, c25Fmt(r.Attrs))
	d.judge(what, r.Attrs, want)
}

func (d *c25) queryCols(node, mode int) {
	c := d.c
	q := "Row(f=1)"
	req := &pilosa.QueryRequest{Index: "i", ColumnAttrs: true}
	if mode == 1 {
		q = "Options(Row(f=1), columnAttrs=true)"
		req.ColumnAttrs = false
	}
	req.Query = q
	what := fmt.Sprintf("%s on node %d (mode %d)", q, node, mode)
	var sets []*pilosa.ColumnAttrSet
	var first interface{}
	if mode == 2 {
		resp, err := d.cl.nodes[node].api.Query(context.Background(), req)
		if err != nil {
			c.Fail("query-error", "%s: %v", what, err)
			return
		}
		sets, first = resp.ColumnAttrSets, resp.Results[0]
	} else {
		resp, err := d.cl.queryOpt(node, "i", q, req)
		if err == nil && resp.Err != nil {
			err = resp.Err
		}
		if err != nil {
			c.Fail("query-error", "%s: %v", what, err)
			return
		}
		sets, first = resp.ColumnAttrSets, resp.Results[0]
	}
	if cols, ok := rowColumns(first); !ok || !equalU64(cols, c25IDs) {
		c.Fail("query-error", "%s returned columns %v want %v", what, first, c25IDs)
		return
	}
	got := map[uint64]map[string]interface{}{}
	for _, s := range sets {
		if _, dup := got[s.ID]; dup {
			c.Fail("attrs-read", "%s lists column %d twice", what, s.ID)
			return
		}
		got[s.ID] = s.Attrs
	}
	c.Logf("qcols n%d mode %d -> %d sets", node, mode, len(sets))
	for _, id := range c25IDs {
		want := d.m[node].st[1][id]
		g, listed := got[id]
		if listed && len(g) == 0 {
			c.Fail("attrs-read", "%s lists column %d with no attributes", what, id)
			return
		}
		if !d.judge(fmt.Sprintf("%s column attrs of %d", what, id), g, want) {
			return
		}
	}
	if mode == 2 {
		for _, s := range sets {
			if d.scribbleOut(s.Attrs) {
				again, err := d.store(node, 1).Attrs(s.ID)
				if err != nil {
					c.Fail("attrs-read", "%v", err)
					return
				}
				if !d.judge(fmt.Sprintf("node%d col store Attrs(%d) after the caller changed the column attr set returned by API.Query(%s)", node, s.ID, q), again, d.m[node].st[1][s.ID]) {
					return
				}
			}
		}
	}
}

// c25BlockDiff lists the block ids at which two block lists differ (presence or checksum).
func c25BlockDiff(a, b []pilosa.AttrBlock) []uint64 {
	am, bm := map[uint64][]byte{}, map[uint64][]byte{}
	for _, x := range a {
		am[x.ID] = x.Checksum
	}
	for _, x := range b {
		bm[x.ID] = x.Checksum
	}
	seen := map[uint64]bool{}
	var out []uint64
	for _, x := range append(append([]pilosa.AttrBlock{}, a...), b...) {
		if seen[x.ID] {
			continue
		}
		seen[x.ID] = true
		ac, aok := am[x.ID]
		bc, bok := bm[x.ID]
		if aok != bok || !bytes.Equal(ac, bc) {
			out = append(out, x.ID)
		}
	}
	sort.Slice(out, func(i, j int) bool { return out[i] < out[j] })
	return out
}

func c25FmtBlocks(b []pilosa.AttrBlock) string {
	var parts []string
	for _, x := range b {
		parts = append(parts, fmt.Sprintf("%d:%x", x.ID, x.Checksum))
	}
	return "[" + strings.Join(parts, " ") + "]"
}

// newTwin opens a scratch attribute store and feeds it the model's logical
// contents (ids with at least one attribute) in another order and through other
// calls than the store under test saw. withEmptied also reproduces the records
// that hold no attribute any more.
func (d *c25) newTwin(st c25Store, withEmptied bool) (pilosa.AttrStore, error) {
	d.twinN++
	tw := boltdb.NewAttrStore(filepath.Join(d.c.Dir, fmt.Sprintf("twin%d.db", d.twinN)))
	if err := tw.Open(); err != nil {
		return nil, err
	}
	ids := c25SortedIDs(st)
	bulk := map[uint64]map[string]interface{}{}
	for i := len(ids) - 1; i >= 0; i-- {
		id, m := ids[i], st[ids[i]]
		if len(m) == 0 {
			if withEmptied {
				bulk[id] = map[string]interface{}{}
			}
			continue
		}
		if i%2 == 0 {
			bulk[id] = c25Copy(m)
			continue
		}
		keys := c25Keys(m)
		for j := len(keys) - 1; j >= 0; j-- {
			if err := tw.SetAttrs(id, map[string]interface{}{keys[j]: m[keys[j]]}); err != nil {
				tw.Close()
				return nil, err
			}
		}
	}
	if len(bulk) > 0 {
		if err := tw.SetBulkAttrs(bulk); err != nil {
			tw.Close()
			return nil, err
		}
	}
	return tw, nil
}

// blocks checks Blocks()/BlockData() of one store against the model and a twin store.
func (d *c25) blocks(kind, node, pick, mode int) {
	c := d.c
	st := d.m[node].st[kind]
	real := d.store(node, kind)
	who := fmt.Sprintf("node%d %s store", node, c25Kind(kind))
	c.Probe("blocks-checked")

	// model grouping
	wantBlocks := map[uint64][]uint64{}
	emptied := map[uint64]bool{} // block -> holds a record without attributes
	for _, id := range c25SortedIDs(st) {
		if len(st[id]) == 0 {
			emptied[id/c25AttrBlock] = true
			continue
		}
		wantBlocks[id/c25AttrBlock] = append(wantBlocks[id/c25AttrBlock], id)
	}
	got, err := real.Blocks()
	if err != nil {
		c.Fail("attrs-blocks", "%s Blocks(): %v", who, err)
		return
	}
	c.Logf("blocks n%d %s -> %d blocks", node, c25Kind(kind), len(got))
	for i := 1; i < len(got); i++ {
		if got[i-1].ID >= got[i].ID {
			c.Fail("attrs-blocks", "%s Blocks() not in ascending order: %s", who, c25FmtBlocks(got))
			return
		}
	}

	tw, err := d.newTwin(st, false)
	if err != nil {
		c.Fail("attrs-blocks", "twin store: %v", err)
		return
	}
	defer tw.Close()
	tb, err := tw.Blocks()
	if err != nil {
		c.Fail("attrs-blocks", "twin Blocks(): %v", err)
		return
	}
	if len(tb) != len(wantBlocks) {
		c.Fail("attrs-blocks", "a fresh store fed the model's attributes %s reports blocks %s, the model has %d blocks", c25FmtStore(st), c25FmtBlocks(tb), len(wantBlocks))
		return
	}
	if diff := c25BlockDiff(got, tb); len(diff) > 0 {
		cls := "attrs-blocks"
		why := ""
		if len(emptied) > 0 {
			// is the difference explained by records whose attributes were all deleted?
			tw2, err := d.newTwin(st, true)
			if err == nil {
				tb2, _ := tw2.Blocks()
				tw2.Close()
				if len(c25BlockDiff(got, tb2)) == 0 {
					cls = "attrs-blocks-emptied"
					why = " (the difference disappears when the second store also keeps empty records for the ids whose attributes were all deleted)"
				}
			}
		}
		c.Fail(cls, "%s holds the same attributes as a second store fed %s, but Blocks() differ in blocks %v: %s vs %s%s (after %s)", who, c25FmtStore(st), diff, c25FmtBlocks(got), c25FmtBlocks(tb), why, d.last)
		return
	}

	// BlockData of every model block, of blocks that only hold emptied records, and of an absent block.
	check := map[uint64]bool{7: true}
	for b := range wantBlocks {
		check[b] = true
	}
	for b := range emptied {
		check[b] = true
	}
	var bl []uint64
	for b := range check {
		bl = append(bl, b)
	}
	sort.Slice(bl, func(i, j int) bool { return bl[i] < bl[j] })
	for _, b := range bl {
		data, err := real.BlockData(b)
		if err != nil {
			c.Fail("attrs-blockdata", "%s BlockData(%d): %v", who, b, err)
			return
		}
		for _, id := range c25SortedIDs(data) {
			if id/c25AttrBlock != b {
				c.Fail("attrs-blockdata", "%s BlockData(%d) lists id %d of another block", who, b, id)
				return
			}
			if len(data[id]) == 0 {
				cls := "attrs-blockdata"
				if m, ok := st[id]; ok && len(m) == 0 {
					cls = "attrs-blocks-emptied"
				}
				c.Fail(cls, "%s BlockData(%d) lists id %d, which has no attributes (after %s)", who, b, id, d.last)
				return
			}
		}
		for _, id := range wantBlocks[b] {
			m, ok := data[id]
			if !ok {
				c.Fail("attrs-blockdata", "%s BlockData(%d) does not list id %d = %s", who, b, id, c25Fmt(st[id]))
				return
			}
			if cls := c25Diff(m, st[id]); cls != "" {
				c.Fail("attrs-blockdata", "%s BlockData(%d)[%d] = %s want %s", who, b, id, c25Fmt(m), c25Fmt(st[id]))
				return
			}
		}
		if len(data) != len(wantBlocks[b]) {
			c.Fail("attrs-blockdata", "%s BlockData(%d) lists %d ids, the model %v", who, b, len(data), wantBlocks[b])
			return
		}
		// the caller changes what it was handed; the store must not care
		for _, id := range c25SortedIDs(data) {
			if d.scribbleOut(data[id]) {
				if !d.readStore(node, kind, id) {
					return
				}
				break
			}
		}
	}

	// one attribute changed in the twin: exactly that block differs
	id := c25IDs[pick%len(c25IDs)]
	cur := st[id]
	keys := c25Keys(cur)
	var change map[string]interface{}
	switch {
	case mode%3 == 1 && len(keys) > 0:
		k := keys[pick%len(keys)]
		var nv interface{}
		switch v := cur[k].(type) { // same text, other type
		case int64:
			nv = strconv.FormatInt(v, 10)
		case string:
			nv = v + "!"
		case bool:
			nv = strconv.FormatBool(v)
		case float64:
			nv = strconv.FormatFloat(v, 'g', -1, 64)
		}
		change = map[string]interface{}{k: nv}
	case mode%3 == 2 && len(keys) > 1:
		change = map[string]interface{}{keys[pick%len(keys)]: nil}
	default:
		change = map[string]interface{}{"zz_twin": int64(1)}
	}
	if err := tw.SetAttrs(id, change); err != nil {
		c.Fail("attrs-blocks", "twin SetAttrs: %v", err)
		return
	}
	tb2, err := tw.Blocks()
	if err != nil {
		c.Fail("attrs-blocks", "twin Blocks(): %v", err)
		return
	}
	diff := c25BlockDiff(got, tb2)
	if len(diff) != 1 || diff[0] != id/c25AttrBlock {
		c.Fail("attrs-blocks", "%s holds %s; a second store differs from it only by %s on id %d, yet Blocks() differ in blocks %v (want exactly [%d]): %s vs %s", who, c25FmtStore(st), c25Fmt(change), id, diff, id/c25AttrBlock, c25FmtBlocks(got), c25FmtBlocks(tb2))
		return
	}
	if pd := c25BlockDiff(tb, tb2); len(pd) != 1 || pd[0] != id/c25AttrBlock {
		c.Fail("attrs-blocks", "changing %s on id %d of a store changed the checksums of blocks %v", c25Fmt(change), id, pd)
	}
}

func execC25(c *simrt.Ctx) {
	var d *c25
	var cl *simCluster
	c.S.SetEager(true)
	c.Do("setup", func() {
		cl = newSimCluster(c, int(c.Plan.Knob("nodes", 1)), int(c.Plan.Knob("replicas", 1)))
		if err := cl.start(); err != nil {
			c.Fail("start", "%v", err)
			return
		}
		if !cl.awaitState(pilosa.ClusterStateNormal, 30*time.Second) {
			c.Inconclusive("cluster-not-normal")
			return
		}
		ctx := context.Background()
		if _, err := cl.nodes[0].api.CreateIndex(ctx, "i", pilosa.IndexOptions{}); err != nil {
			c.Fail("schema-error", "CreateIndex: %v", err)
			return
		}
		if _, err := cl.nodes[0].api.CreateField(ctx, "i", "f", pilosa.OptFieldTypeSet(pilosa.CacheTypeRanked, 100)); err != nil {
			c.Fail("schema-error", "CreateField: %v", err)
			return
		}
		var sets []string
		for _, col := range c25IDs {
			sets = append(sets, fmt.Sprintf("Set(%d, f=1)", col))
		}
		if _, err := cl.query(0, "i", strings.Join(sets, " ")); err != nil {
			c.Fail("write-error", "setup bits: %v", err)
			return
		}
		d = &c25{c: c, cl: cl, scrib: int(c.Plan.Knob("scrib", 1)), last: "setup"}
		for range cl.nodes {
			d.m = append(d.m, &c25Node{st: [2]c25Store{{}, {}}})
		}
		c.State = d
	})
	if c.Stopped() || d == nil {
		c.S.SetEager(true)
		c.Do("teardown", func() {
			if cl != nil {
				cl.closeAll()
			}
		})
		return
	}
	c.S.SetEager(c.Plan.Knob("eager", 0) != 0)
	c.Do("c0", func() {
		defer d.restore()
		for _, op := range c.Plan.Clients[0] {
			if c.Failed() {
				return
			}
			d.apply(op)
			c.OpDone()
		}
		// final state: every id of every store on every node, then the block views
		for node := range d.m {
			if c.Failed() || !d.fullCheck(node) {
				return
			}
		}
		for kind := 0; kind < 2 && !c.Failed(); kind++ {
			d.blocks(kind, 0, kind, kind)
		}
	})
	c.S.SetEager(true)
	c.Do("teardown", func() { d.restore(); d.cl.closeAll() })
}

// ---- generator ----------------------------------------------------------------

type c25Gen struct {
	r       *simrt.Rand
	nodes   int
	noempty bool // never leave a record without attributes (see attrs-blocks-emptied)
	oddf    bool // floats whose shortest text is not of the form d.d (2.0, 0.0000001)
	ascii   bool // PQL strings are ASCII only (see pql-unicode)
	noint   bool // no integer values at all (see attrs-sync-int)
	kfield  bool // "field" is among the attribute names (see pql-key-field)
	keys    [2]map[uint64]map[string]bool
	fresh   int
}

var c25PQLKeys = []string{"a", "b", "c", "d", "name", "x-1", "k_2"}
var c25APIKeys = []string{"a", "b", "c", "d", "name", "x-1", "k_2", "sp ace", "ü"}
var c25Strings = []string{"", "x", "abc", "ab-c:1", "hello world", "héllo wörld", "日本語", "it's", `say "hi"`, "a,b=c)", "true", "null", "123", "1.5", "tab\there", `back\slash`, "smile 😀", "2018-01-01T00:00"}
var c25Ints = []string{"0", "1", "-1", "42", "-7", "9007199254740993", "9223372036854775807", "-9223372036854775808"}
var c25Floats = []string{"1.5", "-0.25", "0.5", "100.125", "-3.75"}
var c25OddFloats = []string{"2.0", "-1.0", "0.0", "0.0000001", "1000000000000000000000.0"}

func (g *c25Gen) id() uint64 {
	if g.r.Bool(0.05) {
		return c25IDs[len(c25IDs)-1]
	}
	return c25IDs[g.r.Intn(len(c25IDs)-1)]
}

func (g *c25Gen) value(direct bool) (string, string) {
	switch g.r.Intn(4) {
	case 0:
		v := simrt.Pick(g.r, c25Strings...)
		for g.ascii && !direct && c25NonASCII(v) {
			v = simrt.Pick(g.r, c25Strings...)
		}
		return "s", v
	case 1:
		if g.noint {
			return "b", simrt.Pick(g.r, "true", "false")
		}
		if direct && g.r.Bool(0.3) {
			return simrt.Pick(g.r, "gi", "gu", "gu64"), simrt.Pick(g.r, "0", "1", "42", "9007199254740993")
		}
		return "i", simrt.Pick(g.r, c25Ints...)
	case 2:
		return "b", simrt.Pick(g.r, "true", "false")
	}
	if g.oddf && g.r.Bool(0.4) {
		return "f", simrt.Pick(g.r, c25OddFloats...)
	}
	return "f", simrt.Pick(g.r, c25Floats...)
}

// attrs generates one update for (kind, id) and tracks the resulting key set.
func (g *c25Gen) attrs(kind int, id uint64, direct bool, minKeys int) []c25KV {
	pool := c25PQLKeys
	if direct {
		pool = c25APIKeys
	}
	if g.kfield {
		pool = append([]string{"field"}, pool...)
	}
	have := g.keys[kind][id]
	if have == nil {
		have = map[string]bool{}
		g.keys[kind][id] = have
	}
	n := minKeys + g.r.Intn(3)
	if n > 3 {
		n = 3
	}
	var kvs []c25KV
	used := map[string]bool{}
	for i := 0; i < n; i++ {
		k := pool[g.r.Intn(len(pool))]
		var existing []string
		for _, p := range pool {
			if have[p] && !used[p] {
				existing = append(existing, p)
			}
		}
		del := false
		if len(existing) > 0 && g.r.Bool(0.35) {
			k = existing[g.r.Intn(len(existing))] // overwrite or delete something that is there
			del = g.r.Bool(0.5)
		} else if g.r.Bool(0.1) {
			del = true // delete of an absent key
		}
		if used[k] {
			continue
		}
		used[k] = true
		if del {
			kvs = append(kvs, c25KV{k, "n", ""})
			delete(have, k)
			continue
		}
		t, v := g.value(direct)
		kvs = append(kvs, c25KV{k, t, v})
		have[k] = true
	}
	if len(kvs) < minKeys || (g.noempty && len(have) == 0 && len(kvs) > 0) {
		// keep the call well-formed / keep the record non-empty
		for i, kv := range kvs {
			if kv[0] == "d" {
				kvs = append(kvs[:i], kvs[i+1:]...)
				break
			}
		}
		kvs = append(kvs, c25KV{"d", "i", "1"})
		have["d"] = true
	}
	return kvs
}

func genC25(r *simrt.Rand, tier string) *simrt.Plan {
	nodes, replicas := 1, 1
	if !r.Bool(0.6) {
		nodes = 2 + r.Intn(2)
		replicas = 1 + r.Intn(2)
	}
	g := &c25Gen{r: r, nodes: nodes, noempty: r.Bool(0.5), oddf: r.Bool(0.25), ascii: r.Bool(0.65), noint: nodes > 1 && r.Bool(0.6), kfield: r.Bool(0.15)}
	g.keys[0], g.keys[1] = map[uint64]map[string]bool{}, map[uint64]map[string]bool{}
	scrib := simrt.Pick(r, 0, 0, 0, 2, 2, 2, 1, 1)
	// swarm: each plan enables a subset of the operation kinds
	kinds := []string{"pql", "pqlmulti", "sset", "sbulk", "sget", "sget", "qrow", "qcols", "blocks"}
	var enabled []string
	for _, k := range kinds {
		if r.Bool(0.8) {
			enabled = append(enabled, k)
		}
	}
	if nodes == 1 {
		if r.Bool(0.8) {
			enabled = append(enabled, "restart")
		}
	} else if r.Bool(0.8) {
		enabled = append(enabled, "dset", "sync")
	}
	if len(enabled) == 0 {
		enabled = []string{"pql", "sget"}
	}
	n := 10 + r.Intn(41)
	if tier == "thorough" {
		n = 10 + r.Intn(90)
	}
	node := func() int64 { return int64(r.Intn(nodes)) }
	var ops []simrt.Op
	for len(ops) < n {
		switch simrt.Pick(r, enabled...) {
		case "pql":
			kind := r.Intn(2)
			id := g.id()
			ops = append(ops, simrt.Op{K: "pql", S: []string{c25JSON([]c25Ent{{C: kind, ID: id, A: g.attrs(kind, id, false, 1)}})}, I: []int64{node()}})
		case "pqlmulti":
			var ents []c25Ent
			rowsOnly := r.Bool(0.7)
			for i, m := 0, 2+r.Intn(3); i < m; i++ {
				kind := 0
				if !rowsOnly {
					kind = r.Intn(2)
				}
				id := g.id()
				ents = append(ents, c25Ent{C: kind, ID: id, A: g.attrs(kind, id, false, 1)})
			}
			ops = append(ops, simrt.Op{K: "pql", S: []string{c25JSON(ents)}, I: []int64{node()}})
		case "sset":
			kind := r.Intn(2)
			id := g.id()
			min := 1
			if r.Bool(0.05) {
				min = 0
			}
			ops = append(ops, simrt.Op{K: "sset", S: []string{c25JSON([]c25Ent{{C: kind, ID: id, A: g.attrs(kind, id, true, min)}})}, I: []int64{node(), int64(r.Intn(2))}})
		case "sbulk":
			kind := r.Intn(2)
			var ents []c25Ent
			seen := map[uint64]bool{}
			for i, m := 0, 1+r.Intn(4); i < m; i++ {
				id := g.id()
				if seen[id] {
					continue
				}
				seen[id] = true
				min := 1
				if !g.noempty && r.Bool(0.1) {
					min = 0
				}
				a := g.attrs(kind, id, true, min)
				if a == nil {
					a = []c25KV{}
				}
				ents = append(ents, c25Ent{C: kind, ID: id, A: a})
			}
			if r.Bool(0.2) {
				// the same call with one more id whose value no store accepts: refused as a whole
				ops = append(ops, simrt.Op{K: "sbulkbad", S: []string{c25JSON(ents)}, I: []int64{node()}})
			}
			ops = append(ops, simrt.Op{K: "sbulk", S: []string{c25JSON(ents)}, I: []int64{node(), int64(r.Intn(2))}})
		case "dset":
			kind := r.Intn(2)
			var ents []c25Ent
			seen := map[uint64]bool{}
			for i, m := 0, 1+r.Intn(3); i < m; i++ {
				id := g.id()
				if seen[id] {
					continue
				}
				seen[id] = true
				g.fresh++
				k := fmt.Sprintf("n%d", g.fresh)
				t, v := g.value(true)
				ents = append(ents, c25Ent{C: kind, ID: id, A: []c25KV{{k, t, v}}})
				if g.keys[kind][id] == nil {
					g.keys[kind][id] = map[string]bool{}
				}
				g.keys[kind][id][k] = true
			}
			ops = append(ops, simrt.Op{K: "dset", S: []string{c25JSON(ents)}, I: []int64{node(), int64(r.Intn(2))}})
			if r.Bool(0.5) {
				ops = append(ops, simrt.Op{K: "sync", I: []int64{node()}})
			}
		case "sync":
			ops = append(ops, simrt.Op{K: "sync", I: []int64{node()}})
		case "sget":
			ops = append(ops, simrt.Op{K: "sget", I: []int64{int64(r.Intn(2)), node(), int64(g.id())}})
		case "qrow":
			ops = append(ops, simrt.Op{K: "qrow", I: []int64{node(), int64(g.id()), int64(r.Intn(3))}})
		case "qcols":
			ops = append(ops, simrt.Op{K: "qcols", I: []int64{node(), int64(r.Intn(3))}})
		case "restart":
			if r.Bool(0.5) {
				full := int64(0)
				if r.Bool(0.3) {
					full = 1
				}
				ops = append(ops, simrt.Op{K: "restart", I: []int64{full}})
			}
		case "blocks":
			if r.Bool(0.5) {
				ops = append(ops, simrt.Op{K: "blocks", I: []int64{int64(r.Intn(2)), node(), int64(r.Intn(64)), int64(r.Intn(3))}})
			}
		}
	}
	knobs := map[string]int64{"nodes": int64(nodes), "replicas": int64(replicas), "scrib": int64(scrib)}
	if g.noempty {
		knobs["noempty"] = 1
	}
	if g.oddf {
		knobs["oddf"] = 1
	}
	if g.ascii {
		knobs["ascii"] = 1
	}
	if g.noint {
		knobs["noint"] = 1
	}
	if g.kfield {
		knobs["kfield"] = 1
	}
	return &simrt.Plan{Knobs: knobs, Clients: [][]simrt.Op{ops}, Sched: dbSched(r)}
}
