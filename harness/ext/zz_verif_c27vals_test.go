package pilosa_test

// C27, generated values: besides the messages the simulated nodes really exchange (tapSerializer),
// every message, request and response type is round-tripped with seeded generated values that a Go
// client or another node may legally build: empty and nil fields, maximal integers, Unicode strings,
// nested results, pairs and attribute sets that carry both an id and a key. Cluster messages are
// also framed and unframed the way Server.SendTo and API.ClusterMessage do, so a type byte that
// maps back to another message type is seen (c27SentTypes).
//
// FieldRow is either-or by construction (RowKey replaces RowID once keys are translated; the wire
// format has one slot's worth of meaning), so generated FieldRows set one of the two.

import (
	"errors"
	"reflect"
	"sort"

	pilosa "github.com/pilosa/pilosa"
	"github.com/pilosa/pilosa/encoding/proto"
	"github.com/pilosa/pilosa/roaring"
	"verif/simrt"
)

// c27SentTypes: message types the nodes of this run marshalled, by encoding. A cluster message
// that a node decodes into a type that was never marshalled to those bytes, while another type was,
// has been unframed as the wrong type.
var c27SentTypes map[string]map[reflect.Type]bool

var c27ClusterTypes = map[reflect.Type]bool{}

func init() {
	for _, m := range []pilosa.Message{
		&pilosa.CreateShardMessage{}, &pilosa.CreateIndexMessage{}, &pilosa.DeleteIndexMessage{}, &pilosa.CreateFieldMessage{},
		&pilosa.DeleteFieldMessage{}, &pilosa.DeleteAvailableShardMessage{}, &pilosa.CreateViewMessage{}, &pilosa.DeleteViewMessage{},
		&pilosa.ClusterStatus{}, &pilosa.ResizeInstruction{}, &pilosa.ResizeInstructionComplete{}, &pilosa.SetCoordinatorMessage{},
		&pilosa.UpdateCoordinatorMessage{}, &pilosa.NodeStateMessage{}, &pilosa.RecalculateCaches{}, &pilosa.NodeEvent{}, &pilosa.NodeStatus{},
	} {
		c27ClusterTypes[reflect.TypeOf(m)] = true
	}
}

func c27NoteSent(m pilosa.Message, b []byte) {
	if c27SentTypes == nil || len(b) == 0 {
		return
	}
	rt := reflect.TypeOf(m)
	if !c27ClusterTypes[rt] {
		return
	}
	set := c27SentTypes[string(b)]
	if set == nil {
		set = map[reflect.Type]bool{}
		c27SentTypes[string(b)] = set
	}
	set[rt] = true
}

// c27CheckReceived reports a cluster message decoded as a type nobody sent with these bytes.
func c27CheckReceived(d *db, node string, m pilosa.Message, b []byte) {
	if c27SentTypes == nil || len(b) == 0 {
		return
	}
	rt := reflect.TypeOf(m)
	if !c27ClusterTypes[rt] {
		return
	}
	set := c27SentTypes[string(b)]
	if len(set) == 0 || set[rt] {
		return
	}
	var sent []string
	for t := range set {
		sent = append(sent, t.String())
	}
	sort.Strings(sent)
	d.c.Fail("codec-type", "node %s unframed a cluster message as %v, but these bytes were only ever sent as %v", node, rt, sent)
}

type c27Gen struct {
	r *simrt.Rand
	// indexOpts: schemas carry index options and a shard width (known finding C27-F1: the
	// Schema wire message has no slot for them), in a minority of runs so the rest of the
	// comparison is not cut short everywhere
	indexOpts bool
}

// c27Schemas returns the schemas a message carries.
func c27Schemas(m pilosa.Message) []*pilosa.Schema {
	switch x := m.(type) {
	case *pilosa.NodeStatus:
		return []*pilosa.Schema{x.Schema}
	case *pilosa.ResizeInstruction:
		if x.NodeStatus != nil {
			return []*pilosa.Schema{x.NodeStatus.Schema}
		}
	}
	return nil
}

// c27IndexOptions reports index options or a shard width that did not arrive with a schema.
func c27IndexOptions(d *db, m, decoded pilosa.Message) bool {
	a, b := c27Schemas(m), c27Schemas(decoded)
	for i := range a {
		if a[i] == nil || i >= len(b) || b[i] == nil || len(a[i].Indexes) != len(b[i].Indexes) {
			continue
		}
		for j, ii := range a[i].Indexes {
			jj := b[i].Indexes[j]
			if ii.Options != jj.Options || ii.ShardWidth != jj.ShardWidth {
				d.c.Fail("schema-index-options", "%T: index %q sent with options %+v shardWidth %d in its Schema arrives with options %+v shardWidth %d",
					m, ii.Name, ii.Options, ii.ShardWidth, jj.Options, jj.ShardWidth)
				return true
			}
		}
	}
	return false
}

func (g c27Gen) u64() uint64 {
	return simrt.Pick(g.r, 0, 1, 2, 3, 127, 128, 65535, 65536, 1<<20-1, 1<<20, 1<<32, 1<<63, ^uint64(0), g.r.Uint64())
}

func (g c27Gen) i64() int64 {
	return simrt.Pick(g.r, 0, 1, -1, 127, -128, 1<<31, -(1 << 31), 1<<62, -(1 << 62), 1<<63-1, -(1 << 63), int64(g.r.Uint64()))
}

func (g c27Gen) str() string {
	return simrt.Pick(g.r, "", "a", "i", "field-1", "ключ", "名前", "a b\tc", "\x00", "k ", "ééé", string(make([]byte, 3)), "x"+string(rune('a'+g.r.Intn(26))))
}

func (g c27Gen) name() string { // non-empty
	return simrt.Pick(g.r, "a", "i", "f", "field-1", "ключ", "名前", "x"+string(rune('a'+g.r.Intn(26))))
}

func (g c27Gen) u64s() []uint64 {
	n := simrt.Pick(g.r, 0, 0, 1, 2, 5)
	var out []uint64
	for i := 0; i < n; i++ {
		out = append(out, g.u64())
	}
	return out
}

func (g c27Gen) i64s() []int64 {
	n := simrt.Pick(g.r, 0, 0, 1, 2, 5)
	var out []int64
	for i := 0; i < n; i++ {
		out = append(out, g.i64())
	}
	return out
}

func (g c27Gen) strs() []string {
	n := simrt.Pick(g.r, 0, 0, 1, 2, 4)
	var out []string
	for i := 0; i < n; i++ {
		out = append(out, g.str())
	}
	return out
}

func (g c27Gen) node() *pilosa.Node {
	if g.r.Bool(0.1) {
		return &pilosa.Node{}
	}
	return &pilosa.Node{
		ID:            g.str(),
		URI:           pilosa.URI{Scheme: simrt.Pick(g.r, "http", "https", ""), Host: simrt.Pick(g.r, "localhost", "n1", "", "10.0.0.1"), Port: uint16(simrt.Pick(g.r, 0, 1, 10101, 65535))},
		IsCoordinator: g.r.Bool(0.5),
		State:         simrt.Pick(g.r, "", "READY", "DOWN", "x"),
	}
}

func (g c27Gen) nodes() []*pilosa.Node {
	var out []*pilosa.Node
	for n := g.r.Intn(4); n > 0; n-- {
		out = append(out, g.node())
	}
	return out
}

func (g c27Gen) attrs() map[string]interface{} {
	n := simrt.Pick(g.r, 0, 0, 1, 2, 4)
	if n == 0 {
		return nil
	}
	m := map[string]interface{}{}
	for i := 0; i < n; i++ {
		var v interface{}
		switch g.r.Intn(4) {
		case 0:
			v = g.str()
		case 1:
			v = g.i64()
		case 2:
			v = g.r.Bool(0.5)
		default:
			v = simrt.Pick(g.r, 0.0, 1.5, -2.25, 1e-7, 1e300, -1e300, 0.1)
		}
		m[g.name()] = v
	}
	return m
}

func (g c27Gen) fieldOptions() pilosa.FieldOptions {
	return pilosa.FieldOptions{
		Base: g.i64(), BitDepth: uint(g.r.Intn(64)), Min: g.i64(), Max: g.i64(), Keys: g.r.Bool(0.5), NoStandardView: g.r.Bool(0.3),
		CacheSize: uint32(g.u64()), CacheType: simrt.Pick(g.r, "", "ranked", "lru", "none"),
		Type: simrt.Pick(g.r, "", "set", "int", "time", "mutex", "bool"), TimeQuantum: pilosa.TimeQuantum(simrt.Pick(g.r, "", "Y", "YMDH", "MD")),
	}
}

func (g c27Gen) schema() *pilosa.Schema {
	s := &pilosa.Schema{}
	for n := g.r.Intn(3); n > 0; n-- {
		ii := &pilosa.IndexInfo{Name: g.name()}
		if g.indexOpts {
			ii.Options = pilosa.IndexOptions{Keys: g.r.Bool(0.5), TrackExistence: g.r.Bool(0.5)}
			ii.ShardWidth = simrt.Pick[uint64](g.r, 0, pilosa.ShardWidth)
		}
		for k := g.r.Intn(3); k > 0; k-- {
			fi := &pilosa.FieldInfo{Name: g.name(), Options: g.fieldOptions()}
			for v := g.r.Intn(3); v > 0; v-- {
				fi.Views = append(fi.Views, &pilosa.ViewInfo{Name: simrt.Pick(g.r, "standard", "standard_2019", "bsig_f", g.name())})
			}
			ii.Fields = append(ii.Fields, fi)
		}
		s.Indexes = append(s.Indexes, ii)
	}
	return s
}

func (g c27Gen) nodeStatus() *pilosa.NodeStatus {
	ns := &pilosa.NodeStatus{Node: g.node(), Schema: g.schema()}
	for n := g.r.Intn(3); n > 0; n-- {
		is := &pilosa.IndexStatus{Name: g.name()}
		for k := g.r.Intn(3); k > 0; k-- {
			bm := roaring.NewBitmap()
			for j := g.r.Intn(4); j > 0; j-- {
				_, _ = bm.Add(simrt.Pick[uint64](g.r, 0, 1, 2, 65535, 65536, 1<<32, 1<<40+3))
			}
			is.Fields = append(is.Fields, &pilosa.FieldStatus{Name: g.name(), AvailableShards: bm})
		}
		ns.Indexes = append(ns.Indexes, is)
	}
	return ns
}

func (g c27Gen) clusterStatus() *pilosa.ClusterStatus {
	return &pilosa.ClusterStatus{ClusterID: g.str(), State: simrt.Pick(g.r, "", "NORMAL", "RESIZING", "STARTING", "DEGRADED"), Nodes: g.nodes()}
}

func (g c27Gen) pair() pilosa.Pair {
	p := pilosa.Pair{Count: g.u64()}
	switch g.r.Intn(3) {
	case 0:
		p.ID = g.u64()
	case 1:
		p.Key = g.str()
	default: // both: a translated pair that keeps its row id
		p.ID, p.Key = g.u64(), g.name()
	}
	return p
}

func (g c27Gen) fieldRow() pilosa.FieldRow {
	fr := pilosa.FieldRow{Field: g.str()}
	if g.r.Bool(0.5) {
		fr.RowID = g.u64()
	} else {
		fr.RowKey = g.name()
	}
	return fr
}

func (g c27Gen) row() *pilosa.Row {
	var cols []uint64
	for n := simrt.Pick(g.r, 0, 1, 3, 9); n > 0; n-- {
		cols = append(cols, simrt.Pick(g.r, 0, 1, 65535, 65536, 1<<20-1, 1<<20, 1<<20+1, 3<<20+7, 1<<40, g.r.Uint64()>>20))
	}
	row := pilosa.NewRow(cols...)
	if g.r.Bool(0.3) {
		row.Keys = g.strs()
	}
	if g.r.Bool(0.4) {
		row.Attrs = g.attrs()
	}
	return row
}

func (g c27Gen) result(depth int) interface{} {
	switch g.r.Intn(12) {
	case 0:
		return g.row()
	case 1:
		var ps []pilosa.Pair
		for n := g.r.Intn(4); n > 0; n-- {
			ps = append(ps, g.pair())
		}
		return ps
	case 2:
		return g.pair()
	case 3:
		return pilosa.ValCount{Val: g.i64(), Count: g.i64()}
	case 4:
		return g.u64()
	case 5:
		return g.r.Bool(0.5)
	case 6:
		return pilosa.RowIDs(g.u64s())
	case 7:
		var gcs []pilosa.GroupCount
		for n := g.r.Intn(4); n > 0; n-- {
			gc := pilosa.GroupCount{Count: g.u64()}
			for k := g.r.Intn(4); k > 0; k-- {
				gc.Group = append(gc.Group, g.fieldRow())
			}
			gcs = append(gcs, gc)
		}
		return gcs
	case 8:
		if g.r.Bool(0.5) {
			return pilosa.RowIdentifiers{Rows: g.u64s()}
		}
		return pilosa.RowIdentifiers{Keys: g.strs()}
	case 9:
		return nil
	default:
		return g.row()
	}
}

// values returns one generated value of every message type.
func (g c27Gen) values() []pilosa.Message {
	fo := g.fieldOptions()
	qr := &pilosa.QueryResponse{}
	for n := g.r.Intn(5); n > 0; n-- {
		qr.Results = append(qr.Results, g.result(0))
	}
	for n := simrt.Pick(g.r, 0, 0, 1, 3); n > 0; n-- {
		cas := &pilosa.ColumnAttrSet{Attrs: g.attrs()}
		switch g.r.Intn(3) {
		case 0:
			cas.ID = g.u64()
		case 1:
			cas.Key = g.name()
		default:
			cas.ID, cas.Key = g.u64(), g.name()
		}
		qr.ColumnAttrSets = append(qr.ColumnAttrSets, cas)
	}
	if g.r.Bool(0.3) {
		qr.Err = errors.New(g.name())
	}
	views := map[string][]byte{}
	for n := g.r.Intn(3); n > 0; n-- {
		b := make([]byte, g.r.Intn(12))
		for i := range b {
			b[i] = byte(g.r.Uint64())
		}
		views[simrt.Pick(g.r, "", "standard", "standard_2019", g.name())] = b
	}
	var srcs []*pilosa.ResizeSource
	for n := g.r.Intn(3); n > 0; n-- {
		srcs = append(srcs, &pilosa.ResizeSource{Node: g.node(), Index: g.str(), Field: g.str(), View: g.str(), Shard: g.u64()})
	}
	return []pilosa.Message{
		&pilosa.CreateShardMessage{Index: g.str(), Field: g.str(), Shard: g.u64()},
		&pilosa.CreateIndexMessage{Index: g.str(), Meta: &pilosa.IndexOptions{Keys: g.r.Bool(0.5), TrackExistence: g.r.Bool(0.5)}},
		&pilosa.DeleteIndexMessage{Index: g.str()},
		&pilosa.CreateFieldMessage{Index: g.str(), Field: g.str(), Meta: &fo},
		&pilosa.DeleteFieldMessage{Index: g.str(), Field: g.str()},
		&pilosa.DeleteAvailableShardMessage{Index: g.str(), Field: g.str(), ShardID: g.u64()},
		&pilosa.CreateViewMessage{Index: g.str(), Field: g.str(), View: g.str()},
		&pilosa.DeleteViewMessage{Index: g.str(), Field: g.str(), View: g.str()},
		g.clusterStatus(),
		&pilosa.ResizeInstruction{JobID: g.i64(), Node: g.node(), Coordinator: g.node(), Sources: srcs, NodeStatus: g.nodeStatus(), ClusterStatus: g.clusterStatus()},
		&pilosa.ResizeInstructionComplete{JobID: g.i64(), Node: g.node(), Error: g.str()},
		&pilosa.SetCoordinatorMessage{New: g.node()},
		&pilosa.UpdateCoordinatorMessage{New: g.node()},
		&pilosa.NodeStateMessage{NodeID: g.str(), State: g.str()},
		&pilosa.RecalculateCaches{},
		&pilosa.NodeEvent{Event: pilosa.NodeEventType(g.r.Intn(3)), Node: g.node()},
		g.nodeStatus(),
		g.node(),
		// QueryRequest.Index is filled in by the receiving handler from the URL path; senders
		// (InternalClient.QueryNode) leave it empty and it has no slot on the wire
		&pilosa.QueryRequest{Query: g.str(), Shards: g.u64s(), ColumnAttrs: g.r.Bool(0.5), Remote: g.r.Bool(0.5), ExcludeRowAttrs: g.r.Bool(0.5), ExcludeColumns: g.r.Bool(0.5)},
		qr,
		&pilosa.ImportRequest{Index: g.str(), Field: g.str(), Shard: g.u64(), RowIDs: g.u64s(), ColumnIDs: g.u64s(), RowKeys: g.strs(), ColumnKeys: g.strs(), Timestamps: g.i64s()},
		&pilosa.ImportValueRequest{Index: g.str(), Field: g.str(), Shard: g.u64(), ColumnIDs: g.u64s(), ColumnKeys: g.strs(), Values: g.i64s()},
		&pilosa.ImportRoaringRequest{Clear: g.r.Bool(0.5), Views: views},
		&pilosa.ImportResponse{Err: g.str()},
		&pilosa.BlockDataRequest{Index: g.str(), Field: g.str(), View: g.str(), Shard: g.u64(), Block: g.u64()},
		&pilosa.BlockDataResponse{RowIDs: g.u64s(), ColumnIDs: g.u64s()},
		&pilosa.TranslateKeysRequest{Index: g.str(), Field: g.str(), Keys: g.strs()},
		&pilosa.TranslateKeysResponse{IDs: g.u64s()},
	}
}

// c27Values is the "codecvals" op: I=[seed, rounds].
func c27Values(d *db, op simrt.Op) {
	g := c27Gen{r: simrt.NewRand(uint64(op.I[0]))}
	rounds := 4
	if len(op.I) > 1 && op.I[1] > 0 {
		rounds = int(op.I[1])
	}
	g.indexOpts = len(op.I) > 2 && op.I[2] == 1
	ser := proto.Serializer{}
	tap := &tapSerializer{real: ser, d: d, node: "generated"}
	nodes := d.cl.nodes
	for k := 0; k < rounds && !d.c.Failed(); k++ {
		for _, m := range g.values() {
			b, err := func() (b []byte, err error) {
				defer func() {
					if rec := recover(); rec != nil {
						d.c.Fail("marshal-panic", "Marshal of a generated %T panicked: %v\n value: %s", m, rec, clip(canonVal(m)))
					}
				}()
				return ser.Marshal(m)
			}()
			if d.c.Failed() {
				return
			}
			if err != nil {
				d.c.Fail("codec-error", "a generated %T does not encode: %v\n value: %s", m, err, clip(canonVal(m)))
				return
			}
			if g.indexOpts && len(c27Schemas(m)) > 0 {
				fresh := reflect.New(reflect.TypeOf(m).Elem()).Interface()
				if err := ser.Unmarshal(b, fresh); err == nil && c27IndexOptions(d, m, fresh) {
					return
				}
			}
			tap.check(m, b, "generated")
			if d.c.Failed() {
				return
			}
			// cluster messages also take the framed path: type byte in front, unframed by the
			// receiving node's API.ClusterMessage through its (tapped) serializer
			if c27ClusterTypes[reflect.TypeOf(m)] && len(nodes) > 0 {
				if _, ok := m.(*pilosa.ResizeInstruction); ok {
					continue // would start a resize on the receiver
				}
				c27Framed(d, m)
			}
		}
	}
	d.c.Probe("generated-values")
}

// c27Framed frames m the way Server.SendTo does. The frame is not delivered: generated schema
// and status messages would rewrite the cluster under test; the "setcoord" op sends a real one.
func c27Framed(d *db, m pilosa.Message) {
	buf, err := pilosa.MarshalInternalMessage(m, proto.Serializer{})
	if err != nil || len(buf) < 1 {
		d.c.Fail("codec-error", "MarshalInternalMessage(%T): %v", m, err)
		return
	}
	d.c.Probe("framed:" + reflect.TypeOf(m).Elem().Name())
}

// c27SetCoordinator is the "setcoord" op: the coordinator is told to be coordinator, which makes it
// send an UpdateCoordinatorMessage to every other node and then the cluster status. Nothing
// changes, but the messages travel framed and are unframed by the receivers (c27CheckReceived).
func c27SetCoordinator(d *db) {
	co := d.cl.coordinator()
	if co == nil || co.api == nil {
		return
	}
	for _, n := range d.cl.nodes {
		if n.api == nil || !n.opened || n.gone {
			return
		}
	}
	_, _, err := co.api.SetCoordinator(ctxBG, co.id)
	d.c.Probe("setcoord")
	if err != nil && !d.c.Failed() {
		d.c.Fail("setcoord-error", "SetCoordinator(%s) on the coordinator itself with every node up: %v", co.id, err)
	}
}
