package pilosa_test

// C29 at node level (plan knob mode=2): 2-4 concurrent clients against one real
// Server (or a small cluster): sets, imports and value writes of bits that no
// other operation writes, on shards and time views that do not exist yet
// (concurrent fragment, view and available-shard creation), reads of the rows
// being written, Rows/TopN/Count, cache recalculation. Oracle: no error on a
// valid request, no panic, no deadlock; every read contains every bit whose write
// had returned before the read was sent and nothing whose write had not been sent
// when the read returned (real-time order); at quiescence every row equals
// exactly the acknowledged writes.

import (
	"context"
	"fmt"
	"sort"

	"github.com/pilosa/pilosa"
	"verif/simrt"
)

func init() {
	simrt.RegisterMode("C29", 2, &simrt.Prop{ID: "C29", Gen: genC29Node, Exec: execC29Node, RaceClass: "map-race"})
}

type c29Write struct {
	field    string
	row, col uint64
	val      int64 // int field value
	inv, ret int64 // event sequence numbers; ret 0 = not returned
	cleared  bool
	clrInv   int64
	clrRet   int64
}

type c29Node struct {
	c      *simrt.Ctx
	cl     *simCluster
	seq    int64
	writes []*c29Write
}

func (h *c29Node) tick() int64 { h.seq++; return h.seq }

func genC29Node(r *simrt.Rand, tier string) *simrt.Plan {
	nodes := simrt.Pick(r, 1, 1, 1, 2)
	nclients := 2 + r.Intn(3)
	p := &simrt.Plan{Knobs: map[string]int64{"mode": 2, "nodes": int64(nodes), "replicas": 1, "pool": int64(simrt.Pick(r, 0, 1, 2, 8)),
		"quantum": int64(r.Intn(3)), "cache": int64(r.Intn(3))}, Sched: dbSched(r)}
	uniq := int64(0)
	valHeavy := r.Bool(0.25)
	// shards: few, so that several clients create the same new fragment at once
	shards := []int64{0, 1, int64(2 + r.Intn(3))}
	for ci := 0; ci < nclients; ci++ {
		var ops []simrt.Op
		n := 3 + r.Intn(8)
		for i := 0; i < n; i++ {
			uniq++
			sh := shards[r.Intn(len(shards))]
			col := sh*int64(pilosa.ShardWidth) + uniq*7%65536 + int64(r.Intn(2))*65536*3
			row := int64(r.Intn(3))
			x := r.Intn(14)
			if valHeavy && r.Bool(0.5) {
				x = 6
			}
			switch {
			case x < 4: // S=[field] I=[row, col, node, ts]
				f := simrt.Pick(r, "s", "s", "t")
				ts := int64(0)
				if f == "t" {
					ts = 1546300800 + int64(r.Intn(3))*86400*200
				}
				ops = append(ops, simrt.Op{K: "set", S: []string{f}, I: []int64{row, col, int64(r.Intn(nodes)), ts}})
			case x < 6: // import of 2-4 unique bits in one shard
				I := []int64{int64(r.Intn(nodes)), sh}
				for k := 0; k < 2+r.Intn(3); k++ {
					uniq++
					I = append(I, int64(r.Intn(3)), sh*int64(pilosa.ShardWidth)+uniq*7%65536)
				}
				ops = append(ops, simrt.Op{K: "import", S: []string{"s"}, I: I})
			case x < 7:
				// values of very different magnitudes: concurrent writers each find the field's
				// bit depth too small and grow it to what their own value needs
				val := uniq % 1000
				if r.Bool(0.6) {
					val = int64(1)<<uint(r.Intn(17)) - int64(r.Intn(2))
				}
				ops = append(ops, simrt.Op{K: "setval", S: []string{"v"}, I: []int64{val, col, int64(r.Intn(nodes))}})
			case x < 8: // clear one of this client's earlier bits
				ops = append(ops, simrt.Op{K: "clearmine", I: []int64{int64(r.Intn(8)), int64(r.Intn(nodes))}})
			case x < 11:
				ops = append(ops, simrt.Op{K: "row", S: []string{simrt.Pick(r, "s", "s", "t")}, I: []int64{row, int64(r.Intn(nodes))}})
			case x < 12:
				ops = append(ops, simrt.Op{K: "rows", S: []string{simrt.Pick(r, "s", "t")}, I: []int64{int64(r.Intn(nodes))}})
			case x < 13:
				ops = append(ops, simrt.Op{K: "count", S: []string{"s"}, I: []int64{row, int64(r.Intn(nodes))}})
			default:
				ops = append(ops, simrt.Op{K: simrt.Pick(r, "recalc", "topn", "valrange"), I: []int64{int64(r.Intn(nodes))}})
			}
		}
		p.Clients = append(p.Clients, ops)
	}
	return p
}

func execC29Node(c *simrt.Ctx) {
	slowShardAnnounce = false
	h := &c29Node{c: c}
	ctx := context.Background()
	c.S.SetEager(true)
	c.Do("setup", func() {
		cl := newSimCluster(c, int(c.Plan.Knob("nodes", 1)), 1)
		cl.poolSize = int(c.Plan.Knob("pool", 0))
		h.cl = cl
		if err := cl.start(); err != nil {
			c.Fail("start", "%v", err)
			return
		}
		api := cl.nodes[0].api
		if _, err := api.CreateIndex(ctx, "i", pilosa.IndexOptions{TrackExistence: c.Plan.Knob("cache", 0) == 1}); err != nil {
			c.Fail("schema-error", "%v", err)
			return
		}
		cache := [...]string{pilosa.CacheTypeRanked, pilosa.CacheTypeLRU, pilosa.CacheTypeNone}[c.Plan.Knob("cache", 0)]
		q := [...]string{"YMD", "D", "YM"}[c.Plan.Knob("quantum", 0)]
		for _, f := range []struct {
			name string
			opt  pilosa.FieldOption
		}{{"s", pilosa.OptFieldTypeSet(cache, 5)}, {"t", pilosa.OptFieldTypeTime(pilosa.TimeQuantum(q))}, {"v", pilosa.OptFieldTypeInt(0, 100000)}} {
			if _, err := api.CreateField(ctx, "i", f.name, f.opt); err != nil {
				c.Fail("schema-error", "%v", err)
				return
			}
		}
	})
	if c.Stopped() {
		if h.cl != nil {
			c.Do("teardown", func() { h.cl.closeAll() })
		}
		return
	}
	c.S.SetEager(false)
	for ci := range c.Plan.Clients {
		ci := ci
		c.Go(fmt.Sprintf("c%d", ci), func() {
			var mine []*c29Write
			for _, op := range c.Plan.Clients[ci] {
				if c.Stopped() {
					return
				}
				h.apply(ci, op, &mine)
				c.OpDone()
			}
		})
	}
	c.RunTasks()
	if !c.Stopped() {
		c.S.SetEager(true)
		c.Do("final", func() { h.final() })
	}
	c.S.SetEager(true)
	c.Do("teardown", func() { h.cl.closeAll() })
}

func (h *c29Node) query(node int64, q string) (interface{}, error) {
	nd := h.cl.nodes[int(node)%len(h.cl.nodes)]
	resp, err := nd.api.Query(context.Background(), &pilosa.QueryRequest{Index: "i", Query: q})
	if err != nil {
		return nil, err
	}
	if len(resp.Results) != 1 {
		return nil, fmt.Errorf("%d results", len(resp.Results))
	}
	return resp.Results[0], nil
}

func (h *c29Node) apply(ci int, op simrt.Op, mine *[]*c29Write) {
	I := op.I
	fail := func(q string, err error) {
		h.c.Fail("op-error", "client %d: %s failed although it is valid: %v", ci, q, err)
	}
	switch op.K {
	case "set":
		w := &c29Write{field: op.S[0], row: uint64(I[0]), col: uint64(I[1])}
		q := fmt.Sprintf("Set(%d, %s=%d)", w.col, w.field, w.row)
		if I[3] != 0 {
			q = fmt.Sprintf("Set(%d, %s=%d, %s)", w.col, w.field, w.row, unixToPQL(I[3]))
		}
		w.inv = h.tick()
		h.writes = append(h.writes, w)
		*mine = append(*mine, w)
		res, err := h.query(I[2], q)
		if err != nil {
			fail(q, err)
			return
		}
		w.ret = h.tick()
		if changed, _ := res.(bool); !changed {
			h.c.Fail("changed-flag", "client %d: %s returned false for a bit nothing else writes", ci, q)
		}
		h.c.Probe("node-writes")
	case "import":
		sh := uint64(I[1])
		req := &pilosa.ImportRequest{Index: "i", Field: op.S[0], Shard: sh}
		var ws []*c29Write
		for k := 2; k+1 < len(I); k += 2 {
			w := &c29Write{field: op.S[0], row: uint64(I[k]), col: uint64(I[k+1])}
			ws = append(ws, w)
			req.RowIDs = append(req.RowIDs, w.row)
			req.ColumnIDs = append(req.ColumnIDs, w.col)
		}
		t := h.tick()
		for _, w := range ws {
			w.inv = t
			h.writes = append(h.writes, w)
		}
		// the import goes to the shard's owner, as a client library does
		var owner *simNode
		for _, nd := range h.cl.nodes {
			if nodes, err := nd.api.ShardNodes(context.Background(), "i", sh); err == nil && len(nodes) > 0 && nodes[0].ID == nd.id {
				owner = nd
			}
		}
		if owner == nil {
			owner = h.cl.nodes[0]
		}
		if err := owner.api.Import(context.Background(), req); err != nil {
			fail(fmt.Sprintf("Import(%s shard %d, %d bits) on %s", op.S[0], sh, len(ws), owner.id), err)
			return
		}
		t = h.tick()
		for _, w := range ws {
			w.ret = t
		}
		h.c.Probe("node-imports")
	case "setval":
		w := &c29Write{field: "v", col: uint64(I[1]), val: I[0]}
		q := fmt.Sprintf("Set(%d, v=%d)", w.col, w.val)
		w.inv = h.tick()
		h.writes = append(h.writes, w)
		if _, err := h.query(I[2], q); err != nil {
			fail(q, err)
			return
		}
		w.ret = h.tick()
	case "clearmine":
		var cands []*c29Write
		for _, w := range *mine {
			if w.ret != 0 && !w.cleared && w.field != "v" {
				cands = append(cands, w)
			}
		}
		if len(cands) == 0 {
			return
		}
		w := cands[int(I[0])%len(cands)]
		q := fmt.Sprintf("Clear(%d, %s=%d)", w.col, w.field, w.row)
		w.cleared = true
		w.clrInv = h.tick()
		res, err := h.query(I[1], q)
		if err != nil {
			fail(q, err)
			return
		}
		w.clrRet = h.tick()
		if changed, _ := res.(bool); !changed {
			h.c.Fail("changed-flag", "client %d: %s returned false for a bit this client had set", ci, q)
		}
	case "row", "count":
		f, row := op.S[0], uint64(I[0])
		q := fmt.Sprintf("Row(%s=%d)", f, row)
		if op.K == "count" {
			q = "Count(" + q + ")"
		}
		inv := h.tick()
		// snapshot of what must be there: writes returned before the read was sent
		res, err := h.query(I[1], q)
		if err != nil {
			fail(q, err)
			return
		}
		ret := h.tick()
		must, may := map[uint64]bool{}, map[uint64]bool{}
		for _, w := range h.writes {
			if w.field != f || w.row != row {
				continue
			}
			if w.inv < ret && !(w.cleared && w.clrRet != 0 && w.clrRet < inv) {
				may[w.col] = true
			}
			if w.ret != 0 && w.ret < inv && !(w.cleared && w.clrInv < ret) {
				must[w.col] = true
			}
		}
		if op.K == "count" {
			n, _ := res.(uint64)
			if int(n) < len(must) || int(n) > len(may) {
				h.c.Fail(c29StaleClass(), "client %d: %s = %d, but %d bits were acknowledged before the request and %d had been requested before the answer", ci, q, n, len(must), len(may))
			}
			h.c.Probe("node-reads")
			return
		}
		r, ok := res.(*pilosa.Row)
		if !ok {
			h.c.Fail("op-error", "client %d: %s returned %T", ci, q, res)
			return
		}
		got := map[uint64]bool{}
		for _, col := range r.Columns() {
			got[col] = true
			if !may[col] {
				h.c.Fail("phantom-read", "client %d: %s contains column %d, which no request sent before the answer has written (or whose clear had been acknowledged before the request)", ci, q, col)
				return
			}
		}
		for col := range must {
			if !got[col] {
				h.c.Fail(c29StaleClass(), "client %d: %s lacks column %d, whose write was acknowledged before the request was sent (answer: %v)", ci, q, col, r.Columns())
				return
			}
		}
		h.c.Probe("node-reads")
	case "rows":
		f := op.S[0]
		q := fmt.Sprintf("Rows(field=%s)", f)
		inv := h.tick()
		res, err := h.query(I[0], q)
		if err != nil {
			fail(q, err)
			return
		}
		ret := h.tick()
		ids, _ := res.(pilosa.RowIdentifiers)
		got := map[uint64]bool{}
		for _, id := range ids.Rows {
			got[id] = true
		}
		for _, w := range h.writes {
			if w.field == f && w.ret != 0 && w.ret < inv && !w.cleared && !got[w.row] {
				h.c.Fail(c29StaleClass(), "client %d: %s = %v lacks row %d, set and acknowledged before the request", ci, q, ids.Rows, w.row)
				return
			}
		}
		_ = ret
	case "recalc":
		nd := h.cl.nodes[int(I[0])%len(h.cl.nodes)]
		if err := nd.api.RecalculateCaches(context.Background()); err != nil {
			fail("RecalculateCaches", err)
		}
	case "topn":
		if h.c.Plan.Knob("cache", 0) == 2 {
			return // TopN is refused on a field without a cache
		}
		if _, err := h.query(I[0], "TopN(s, n=3)"); err != nil {
			fail("TopN(s, n=3)", err)
		}
	case "valrange":
		if _, err := h.query(I[0], "Row(v > 10)"); err != nil {
			fail("Row(v > 10)", err)
		}
	}
}

func unixToPQL(ts int64) string { return pqlTime(ts) }

// final compares every row with exactly the acknowledged, uncleared writes on every node.
func (h *c29Node) final() {
	type key struct {
		f   string
		row uint64
	}
	want := map[key]map[uint64]bool{}
	vals := map[uint64]int64{}
	for _, w := range h.writes {
		if w.ret == 0 {
			h.c.Fail("op-error", "a write never returned: %+v", *w)
			return
		}
		if w.field == "v" {
			vals[w.col] = w.val
			continue
		}
		k := key{w.field, w.row}
		if want[k] == nil {
			want[k] = map[uint64]bool{}
		}
		if !w.cleared {
			want[k][w.col] = true
		}
	}
	for _, f := range []string{"s", "t"} {
		for row := uint64(0); row < 3; row++ {
			if want[key{f, row}] == nil {
				want[key{f, row}] = map[uint64]bool{}
			}
		}
	}
	var keys []key
	for k := range want {
		keys = append(keys, k)
	}
	sort.Slice(keys, func(i, j int) bool {
		if keys[i].f != keys[j].f {
			return keys[i].f < keys[j].f
		}
		return keys[i].row < keys[j].row
	})
	for n := range h.cl.nodes {
		for _, k := range keys {
			q := fmt.Sprintf("Row(%s=%d)", k.f, k.row)
			res, err := h.query(int64(n), q)
			if err != nil {
				h.c.Fail("op-error", "final %s on node %d: %v", q, n, err)
				return
			}
			got := res.(*pilosa.Row).Columns()
			var w []uint64
			for col := range want[k] {
				w = append(w, col)
			}
			sort.Slice(w, func(i, j int) bool { return w[i] < w[j] })
			if fmt.Sprint(got) != fmt.Sprint(w) && !(len(got) == 0 && len(w) == 0) {
				h.c.Fail("final-state", "at quiescence %s on node %d = %v, acknowledged writes: %v", q, n, got, w)
				return
			}
		}
		for _, col := range simrt.SortedKeys(vals) {
			q := fmt.Sprintf("Row(v == %d)", vals[col])
			res, err := h.query(int64(n), q)
			if err != nil {
				h.c.Fail("op-error", "final %s: %v", q, err)
				return
			}
			found := false
			for _, c2 := range res.(*pilosa.Row).Columns() {
				if c2 == col {
					found = true
				}
			}
			if !found {
				h.c.Fail("final-state", "at quiescence %s on node %d lacks column %d (acknowledged Set(%d, v=%d))", q, n, col, col, vals[col])
				return
			}
		}
	}
	h.c.Probe("node-final-checked")
}

// c29StaleClass: a stale read in a run where a shard's announcement outlasted the 50 ms its
// creator waits for it is the recorded consequence of that bound (known finding C29-F1).
func c29StaleClass() string {
	if slowShardAnnounce {
		return "stale-read-slow-announce"
	}
	return "stale-read"
}
