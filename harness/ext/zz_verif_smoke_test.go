package pilosa_test

import (
	"context"
	"fmt"
	"time"

	"github.com/pilosa/pilosa"
	"verif/simrt"
)

func init() {
	simrt.Register(&simrt.Prop{ID: "L4S", Gen: func(r *simrt.Rand, tier string) *simrt.Plan {
		return &simrt.Plan{Knobs: map[string]int64{"nodes": int64(1 + r.Intn(4)), "replicas": int64(1 + r.Intn(3))}, Sched: simrt.Config{Seed: int64(r.Uint64() >> 1), Mode: simrt.Pick(r, "pct", "random")}, Clients: [][]simrt.Op{{}}}
	}, Exec: execSmoke})
}

func execSmoke(c *simrt.Ctx) {
	var cl *simCluster
	c.S.SetEager(true)
	c.Do("setup", func() {
		cl = newSimCluster(c, int(c.Plan.Knob("nodes", 2)), int(c.Plan.Knob("replicas", 1)))
		if err := cl.start(); err != nil {
			c.Fail("start", "%v", err)
			return
		}
		if !cl.awaitState(pilosa.ClusterStateNormal, 30*time.Second) {
			c.Fail("start", "cluster not NORMAL: %s", cl.states())
		}
	})
	if c.Failed() {
		return
	}
	c.S.SetEager(false)
	c.Do("c0", func() {
		ctx := context.Background()
		n0 := cl.nodes[0]
		if _, err := n0.api.CreateIndex(ctx, "i", pilosa.IndexOptions{TrackExistence: true}); err != nil {
			c.Fail("schema", "%v", err)
			return
		}
		if _, err := n0.api.CreateField(ctx, "i", "f", pilosa.OptFieldTypeSet(pilosa.CacheTypeRanked, 100)); err != nil {
			c.Fail("schema", "%v", err)
			return
		}
		cols := []uint64{1, pilosa.ShardWidth + 2, 3*pilosa.ShardWidth + 5}
		for i, col := range cols {
			if _, err := cl.query(i%len(cl.nodes), "i", fmt.Sprintf("Set(%d, f=7)", col)); err != nil {
				c.Fail("set", "%v", err)
				return
			}
		}
		for i := range cl.nodes {
			res, err := cl.query(i, "i", "Row(f=7)")
			if err != nil {
				c.Fail("query", "node %d: %v", i, err)
				return
			}
			got, _ := rowColumns(res[0])
			if !equalU64(got, cols) {
				c.Fail("query", "node %d Row(f=7)=%v want %v", i, got, cols)
				return
			}
			c.Logf("node %d ok", i)
		}
		c.OpDone()
	})
	c.S.SetEager(true)
	c.Do("teardown", func() { cl.closeAll() })
}
