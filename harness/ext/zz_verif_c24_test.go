package pilosa_test

// C24: key translation is a stable bijection on every node. Store-level harness:
// a primary TranslateFile, a replica TranslateFile streaming the primary's log
// through a reader that can be cut after any number of bytes, concurrent
// translating clients, restarts of either side.

import (
	"context"
	"fmt"
	"io"
	"os"
	"sort"
	"strings"
	"sync"
	"time"

	"github.com/pilosa/pilosa"
	"verif/simrt"
)

func init() {
	simrt.Register(&simrt.Prop{ID: "C24", Gen: genC24, Exec: execC24})
}

// cutStore is the replica's view of the primary: Reader streams the primary's
// log from an offset; a planned cut ends the stream with an error after k bytes.
type cutStore struct {
	mu      sync.Mutex
	primary func() *pilosa.TranslateFile
	cuts    []int64 // bytes after which the n-th stream is cut (consumed in order); -1 = no cut
	eofs    []bool  // the n-th cut ends the stream cleanly (the primary closed it) instead of failing it
	n       int
	c       *simrt.Ctx
}

func (s *cutStore) TranslateColumnsToUint64(index string, values []string) ([]uint64, error) {
	return nil, pilosa.ErrNotImplemented
}
func (s *cutStore) TranslateColumnToString(index string, values uint64) (string, error) {
	return "", pilosa.ErrNotImplemented
}
func (s *cutStore) TranslateRowsToUint64(index, field string, values []string) ([]uint64, error) {
	return nil, pilosa.ErrNotImplemented
}
func (s *cutStore) TranslateRowToString(index, field string, values uint64) (string, error) {
	return "", pilosa.ErrNotImplemented
}

type cutReader struct {
	rc    io.ReadCloser
	eof   bool
	limit int64
	read  int64
	c     *simrt.Ctx
}

func (r *cutReader) Read(p []byte) (int, error) {
	if r.limit >= 0 && r.read >= r.limit {
		if r.eof {
			r.c.Probe("fault:stream-ended")
			return 0, io.EOF
		}
		r.c.Probe("fault:cut-stream")
		return 0, fmt.Errorf("simulated: translate stream cut after %d bytes", r.read)
	}
	if r.limit >= 0 && int64(len(p)) > r.limit-r.read {
		p = p[:r.limit-r.read]
	}
	n, err := r.rc.Read(p)
	r.read += int64(n)
	simrt.Yield("stream-read")
	return n, err
}
func (r *cutReader) Close() error { return r.rc.Close() }

func (s *cutStore) Reader(ctx context.Context, off int64) (io.ReadCloser, error) {
	s.mu.Lock()
	limit, eof := int64(-1), false
	if s.n < len(s.cuts) {
		limit, eof = s.cuts[s.n], s.eofs[s.n]
	}
	s.n++
	s.mu.Unlock()
	p := s.primary()
	if p == nil {
		return nil, fmt.Errorf("simulated: primary unreachable")
	}
	rc, err := p.Reader(ctx, off)
	if err != nil {
		return nil, err
	}
	return &cutReader{rc: rc, limit: limit, eof: eof, c: s.c}, nil
}

type c24 struct {
	c       *simrt.Ctx
	mu      sync.Mutex // real mutex: short critical sections around the model only
	prim    *pilosa.TranslateFile
	repl    *pilosa.TranslateFile
	cut     *cutStore
	fwd     map[string]map[string]uint64 // namespace -> key -> id (first observation)
	rev     map[string]map[uint64]string
	mapSize int
}

func ns(op simrt.Op) string {
	if op.S[1] == "" {
		return "c:" + op.S[0]
	}
	return "r:" + op.S[0] + "/" + op.S[1]
}

var c24Keys = []string{"a", "b", "c", "k1", "k2", "ünï", "with space", "q\"uote", "comma,key", "new\nline", strings.Repeat("L", 5000), strings.Repeat("m", 4090), ""}

func c24Key(i int64) string {
	if i < int64(len(c24Keys)) {
		return c24Keys[i]
	}
	return fmt.Sprintf("key-%d", i)
}

func (h *c24) open(which string) error {
	tf := pilosa.NewTranslateFile(pilosa.OptTranslateFileMapSize(h.mapSize), pilosa.OptTranslateFileLogger(&simLogger{c: h.c, id: which}))
	tf.Path = h.c.Dir + "/" + which + "/.keys"
	if err := tf.Open(); err != nil {
		return err
	}
	if which == "p" {
		h.prim = tf
	} else {
		h.repl = tf
		tf.SetPrimaryStore("p", h.cut)
	}
	return nil
}

// observe records ids returned for keys and checks stability and injectivity.
func (h *c24) observe(n string, keys []string, ids []uint64, who string) {
	h.mu.Lock()
	defer h.mu.Unlock()
	if h.fwd[n] == nil {
		h.fwd[n], h.rev[n] = map[string]uint64{}, map[uint64]string{}
	}
	for i, k := range keys {
		id := ids[i]
		if id == 0 {
			h.c.Fail("zero-id", "%s: key %q in %s got id 0", who, short(k), n)
			return
		}
		if old, ok := h.fwd[n][k]; ok && old != id {
			h.c.Fail("id-changed", "%s: key %q in %s had id %d, now %d", who, short(k), n, old, id)
			return
		}
		if ok2, found := h.rev[n][id]; found && ok2 != k {
			h.c.Fail("id-collision", "%s: id %d in %s maps both %q and %q", who, id, n, short(ok2), short(k))
			return
		}
		h.fwd[n][k] = id
		h.rev[n][id] = k
	}
}

func fileSize(p string) int64 {
	fi, err := os.Stat(p)
	if err != nil {
		return -1
	}
	return fi.Size()
}

func short(k string) string {
	if len(k) > 24 {
		return fmt.Sprintf("%s...(%d bytes)", k[:12], len(k))
	}
	return k
}

func (h *c24) translate(tf *pilosa.TranslateFile, op simrt.Op, keys []string) ([]uint64, error) {
	if op.S[1] == "" {
		return tf.TranslateColumnsToUint64(op.S[0], keys)
	}
	return tf.TranslateRowsToUint64(op.S[0], op.S[1], keys)
}

func (h *c24) reverse(tf *pilosa.TranslateFile, n string, id uint64) (string, error) {
	parts := strings.SplitN(n[2:], "/", 2)
	if n[0] == 'c' {
		return tf.TranslateColumnToString(parts[0], id)
	}
	return tf.TranslateRowToString(parts[0], parts[1], id)
}

// checkStore verifies every known mapping on a store (forward for known keys, reverse for known ids).
func (h *c24) checkStore(tf *pilosa.TranslateFile, who string, class string) {
	h.mu.Lock()
	type kv struct {
		n, k string
		id   uint64
	}
	var all []kv
	for n, m := range h.fwd {
		for k, id := range m {
			all = append(all, kv{n, k, id})
		}
	}
	h.mu.Unlock()
	sort.Slice(all, func(i, j int) bool {
		if all[i].n != all[j].n {
			return all[i].n < all[j].n
		}
		return all[i].id < all[j].id
	})
	for _, e := range all {
		got, err := h.reverse(tf, e.n, e.id)
		if err != nil || got != e.k {
			h.c.Fail(class, "%s: reverse(%s, %d) = %q, %v; want %q (log sizes: primary %d, replica %d bytes)", who, e.n, e.id, short(got), err, short(e.k), fileSize(h.c.Dir+"/p/.keys"), fileSize(h.c.Dir+"/r/.keys"))
			return
		}
		op := simrt.Op{S: []string{"", ""}}
		parts := strings.SplitN(e.n[2:], "/", 2)
		op.S[0] = parts[0]
		if e.n[0] == 'r' {
			op.S[1] = parts[1]
		}
		ids, err := h.translate(tf, op, []string{e.k})
		if err != nil || len(ids) != 1 || ids[0] != e.id {
			h.c.Fail(class, "%s: translate(%s, %q) = %v, %v; want %d", who, e.n, short(e.k), ids, err, e.id)
			return
		}
	}
	h.c.ProbeN("mappings-verified", len(all))
}

func (h *c24) apply(ci int, op simrt.Op) {
	switch op.K {
	case "tr": // S=[index,field] I=[key indexes...]
		var keys []string
		for _, i := range op.I {
			keys = append(keys, c24Key(i))
		}
		ids, err := h.translate(h.prim, op, keys)
		if err != nil {
			h.c.Fail("translate-error", "primary translate %v in %s: %v", op.I, ns(op), err)
			return
		}
		if len(ids) != len(keys) {
			h.c.Fail("translate-error", "primary returned %d ids for %d keys", len(ids), len(keys))
			return
		}
		// repeated keys inside one batch must get one id
		seen := map[string]uint64{}
		for i, k := range keys {
			if old, ok := seen[k]; ok && old != ids[i] {
				h.c.Fail("id-changed", "batch %v: key %q got ids %d and %d in one call", op.I, short(k), old, ids[i])
				return
			}
			seen[k] = ids[i]
		}
		h.observe(ns(op), keys, ids, fmt.Sprintf("client %d", ci))
	case "rev": // S=[index,field] I=[which(0 primary,1 replica)]
		n := ns(op)
		h.mu.Lock()
		var ids []uint64
		for id := range h.rev[n] {
			ids = append(ids, id)
		}
		h.mu.Unlock()
		sort.Slice(ids, func(i, j int) bool { return ids[i] < ids[j] })
		for _, id := range ids {
			got, err := h.reverse(h.prim, n, id)
			h.mu.Lock()
			want := h.rev[n][id]
			h.mu.Unlock()
			if err != nil || got != want {
				h.c.Fail("reverse", "primary reverse(%s,%d)=%q,%v want %q", n, id, short(got), err, short(want))
				return
			}
		}
	case "restartp":
		if err := h.prim.Close(); err != nil {
			h.c.Fail("close-error", "%v", err)
			return
		}
		if err := h.open("p"); err != nil {
			h.c.Fail("restart-error", "primary reopen: %v", err)
			return
		}
		h.checkStore(h.prim, "primary after restart", "restart-mapping")
	case "restartr":
		if err := h.repl.Close(); err != nil {
			h.c.Fail("close-error", "%v", err)
			return
		}
		if err := h.open("r"); err != nil {
			h.c.Fail("restart-error", "replica reopen: %v", err)
			return
		}
	case "sleep":
		simrt.Sleep(time.Duration(op.I[0]) * time.Millisecond)
	}
}

func execC24(c *simrt.Ctx) {
	h := &c24{c: c, fwd: map[string]map[string]uint64{}, rev: map[string]map[uint64]string{}, mapSize: int(c.Plan.Knob("mapsize", 1<<22))}
	h.cut = &cutStore{c: c, primary: func() *pilosa.TranslateFile { return h.prim }}
	for _, f := range c.Plan.Faults {
		if f.K == "cut" || f.K == "cuteof" {
			h.cut.cuts = append(h.cut.cuts, f.N)
			h.cut.eofs = append(h.cut.eofs, f.K == "cuteof")
		}
	}
	c.S.SetEager(true)
	c.Do("setup", func() {
		if err := h.open("p"); err != nil {
			c.Fail("open-error", "%v", err)
			return
		}
		if err := h.open("r"); err != nil {
			c.Fail("open-error", "%v", err)
		}
	})
	if c.Stopped() {
		return
	}
	c.S.SetEager(false)
	// clients 0..n-2 translate concurrently; the last client list is the "admin" (restarts, sleeps), serialized with them
	for ci, ops := range c.Plan.Clients {
		ci, ops := ci, ops
		c.Go(fmt.Sprintf("c%d", ci), func() {
			for _, op := range ops {
				if c.Failed() {
					return
				}
				h.apply(ci, op)
				c.OpDone()
			}
		})
	}
	c.RunTasks()
	if !c.Stopped() {
		// faults stop; bounded liveness: the replica must catch up within 30 simulated seconds
		c.Do("converge", func() {
			h.cut.mu.Lock()
			h.cut.cuts = nil
			h.cut.mu.Unlock()
			h.checkStore(h.prim, "primary at end", "final-mapping")
			if c.Failed() {
				return
			}
			simrt.Sleep(30 * time.Second)
			h.checkStore(h.repl, "replica after replication quiesced", "replica-diverged")
		})
	}
	c.S.SetEager(true)
	c.Do("teardown", func() {
		if h.repl != nil {
			h.repl.Close()
		}
		if h.prim != nil {
			h.prim.Close()
		}
	})
}

func genC24(r *simrt.Rand, tier string) *simrt.Plan {
	p := &simrt.Plan{Knobs: map[string]int64{"mapsize": 1 << 22}}
	nclients := 1 + r.Intn(3)
	spaces := [][]string{{"i", ""}, {"i", "f"}, {"j", ""}, {"i", "g"}}[:1+r.Intn(4)]
	big := r.Bool(0.15) // enough keys in one namespace to cross the hash-table growth threshold
	for ci := 0; ci < nclients; ci++ {
		var ops []simrt.Op
		n := 2 + r.Intn(10)
		for i := 0; i < n; i++ {
			sp := spaces[r.Intn(len(spaces))]
			if r.Bool(0.8) {
				k := 1 + r.Intn(6)
				var I []int64
				for j := 0; j < k; j++ {
					switch x := r.Intn(10); {
					case x < 6:
						I = append(I, int64(r.Intn(8)))
					case x < 8:
						I = append(I, int64(r.Intn(len(c24Keys))))
					default:
						I = append(I, int64(20+r.Intn(20)))
					}
				}
				if r.Bool(0.3) && len(I) > 1 {
					I = append(I, I[0]) // repeat inside the batch
				}
				ops = append(ops, simrt.Op{K: "tr", S: sp, I: I})
			} else {
				ops = append(ops, simrt.Op{K: "rev", S: sp, I: []int64{0}})
			}
		}
		if big && ci == 0 {
			var I []int64
			for j := 0; j < 300; j++ {
				I = append(I, int64(100+j))
			}
			ops = append(ops, simrt.Op{K: "tr", S: spaces[0], I: I})
		}
		p.Clients = append(p.Clients, ops)
	}
	// admin client: restarts and clock advances
	var admin []simrt.Op
	for i := 0; i < r.Intn(5); i++ {
		switch r.Intn(4) {
		case 0:
			if nclients == 1 { // restarting the primary under concurrent writers is not a clean restart
				admin = append(admin, simrt.Op{K: "restartp"})
			}
		case 1:
			admin = append(admin, simrt.Op{K: "restartr"})
		default:
			admin = append(admin, simrt.Op{K: "sleep", I: []int64{int64(simrt.Pick(r, 1, 500, 1500, 3000))}})
		}
	}
	if nclients == 1 {
		// a single writer: interleave admin ops into its list so that restarts fall between batches
		ops := p.Clients[0]
		for _, a := range admin {
			i := r.Intn(len(ops) + 1)
			ops = append(ops[:i], append([]simrt.Op{a}, ops[i:]...)...)
		}
		p.Clients[0] = ops
	} else {
		var adm []simrt.Op
		for _, a := range admin {
			if a.K != "restartp" {
				adm = append(adm, a)
			}
		}
		p.Clients = append(p.Clients, adm)
	}
	// stream cuts: at entry boundaries and mid-entry (byte offsets into each successive stream)
	nc := r.Intn(5)
	for i := 0; i < nc; i++ {
		p.Faults = append(p.Faults, simrt.Fault{K: simrt.Pick(r, "cut", "cut", "cuteof"), N: simrt.Pick(r, int64(0), 1, 7, 13, 40, 100, 4095, 4096, 4097, int64(r.Intn(6000)))})
	}
	cfg := simrt.Config{Seed: int64(r.Uint64() >> 1)}
	if r.Bool(0.4) {
		cfg.Mode = "random"
	} else {
		for i := 0; i < r.Intn(5); i++ {
			cfg.Changes = append(cfg.Changes, r.Intn(300))
		}
		sort.Ints(cfg.Changes)
	}
	p.Sched = cfg
	return p
}
