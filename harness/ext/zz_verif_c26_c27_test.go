package pilosa_test

// C26: PQL text is parsed faithfully and forwarded queries keep their meaning.
// C27: internal messages and responses survive encoding unchanged.
// Both ride on the logical database harness with observers attached:
//   - a tapping Serializer (every Marshal is decoded again and compared),
//   - a network tap that re-parses every query forwarded between nodes.

import (
	"encoding/json"
	"fmt"
	"reflect"
	"sort"
	"strconv"
	"strings"

	"github.com/pilosa/pilosa"
	"github.com/pilosa/pilosa/encoding/proto"
	"github.com/pilosa/pilosa/pql"
	"github.com/pilosa/pilosa/roaring"
	"verif/simrt"
)

func init() {
	simrt.Register(&simrt.Prop{ID: "C26", Gen: genC26, Exec: execDBOpt(dbOpts{extra: c26Extra, prepare: c26Prepare})})
	simrt.Register(&simrt.Prop{ID: "C27", Gen: genC27, Exec: execDBOpt(dbOpts{extra: c27Extra, prepare: c27Prepare})})
}

// ---- canonical forms ------------------------------------------------------------

// canonVal renders v structurally: exported fields only, nil and empty
// slices/maps identified, Rows and Bitmaps by content, errors by message.
func canonVal(v interface{}) string {
	var sb strings.Builder
	canonRV(&sb, reflect.ValueOf(v), 0)
	return sb.String()
}

func canonRV(sb *strings.Builder, v reflect.Value, depth int) {
	if depth > 12 {
		sb.WriteString("…")
		return
	}
	if !v.IsValid() {
		sb.WriteString("nil")
		return
	}
	if v.CanInterface() {
		switch x := v.Interface().(type) {
		case *pilosa.Row:
			if x == nil {
				sb.WriteString("row{}")
				return
			}
			// the columns as a set: a Shift that carried a bit past its shard's last column leaves
			// it in that shard's segment (known finding C15-F1), so Columns() of the value being
			// encoded can be out of order while the decoded row lists the same columns in order
			cols := append([]uint64(nil), x.Columns()...)
			sort.Slice(cols, func(i, j int) bool { return cols[i] < cols[j] })
			// ... and when the next shard holds that column too, Columns() lists it twice
			uniq := cols[:0]
			for i, c := range cols {
				if i == 0 || c != cols[i-1] {
					uniq = append(uniq, c)
				}
			}
			cols = uniq
			fmt.Fprintf(sb, "row{cols:%v keys:%v attrs:%s}", cols, x.Keys, canonVal(x.Attrs))
			return
		case *roaring.Bitmap:
			if x == nil {
				sb.WriteString("bm[]")
				return
			}
			fmt.Fprintf(sb, "bm%v", x.Slice())
			return
		case pilosa.RowIDs:
			fmt.Fprintf(sb, "rowids{%v []}", []uint64(x))
			return
		case pilosa.RowIdentifiers:
			fmt.Fprintf(sb, "rowids{%v %v}", x.Rows, x.Keys)
			return
		case *pilosa.RowIdentifiers:
			if x != nil {
				fmt.Fprintf(sb, "rowids{%v %v}", x.Rows, x.Keys)
				return
			}
		case error:
			if x == nil {
				sb.WriteString("err<nil>")
			} else {
				fmt.Fprintf(sb, "err(%s)", x.Error())
			}
			return
		}
	}
	switch v.Kind() {
	case reflect.Ptr, reflect.Interface:
		if v.IsNil() {
			sb.WriteString("nil")
			return
		}
		canonRV(sb, v.Elem(), depth+1)
	case reflect.Struct:
		sb.WriteString(v.Type().Name() + "{")
		for i := 0; i < v.NumField(); i++ {
			if v.Type().Field(i).PkgPath != "" {
				continue
			}
			sb.WriteString(v.Type().Field(i).Name + ":")
			canonRV(sb, v.Field(i), depth+1)
			sb.WriteString(" ")
		}
		sb.WriteString("}")
	case reflect.Slice, reflect.Array:
		if v.Len() == 0 {
			sb.WriteString("[]")
			return
		}
		if v.Type().Elem().Kind() == reflect.Uint8 {
			fmt.Fprintf(sb, "bytes(%x)", v.Bytes())
			return
		}
		sb.WriteString("[")
		for i := 0; i < v.Len(); i++ {
			canonRV(sb, v.Index(i), depth+1)
			sb.WriteString(",")
		}
		sb.WriteString("]")
	case reflect.Map:
		if v.Len() == 0 {
			sb.WriteString("map[]")
			return
		}
		var parts []string
		for _, k := range v.MapKeys() {
			var kb, vb strings.Builder
			canonRV(&kb, k, depth+1)
			canonRV(&vb, v.MapIndex(k), depth+1)
			parts = append(parts, kb.String()+"="+vb.String())
		}
		sort.Strings(parts)
		sb.WriteString("map[" + strings.Join(parts, " ") + "]")
	case reflect.Int, reflect.Int8, reflect.Int16, reflect.Int32, reflect.Int64:
		fmt.Fprintf(sb, "%s(%d)", v.Kind(), v.Int())
	case reflect.Uint, reflect.Uint8, reflect.Uint16, reflect.Uint32, reflect.Uint64:
		fmt.Fprintf(sb, "%s(%d)", v.Kind(), v.Uint())
	case reflect.Float32, reflect.Float64:
		fmt.Fprintf(sb, "float(%v)", v.Float())
	case reflect.String:
		fmt.Fprintf(sb, "%q", v.String())
	case reflect.Bool:
		fmt.Fprintf(sb, "%v", v.Bool())
	default:
		fmt.Fprintf(sb, "<%s>", v.Kind())
	}
}

// canonCall renders a parsed call for comparison: integers of any width and
// sign are one kind, []interface{} of ints == []int64 == []uint64.
func canonCall(c *pql.Call, dropArgs map[string]bool) string {
	var sb strings.Builder
	sb.WriteString(c.Name + "(")
	for _, ch := range c.Children {
		sb.WriteString(canonCall(ch, nil) + ";")
	}
	var keys []string
	for k := range c.Args {
		// the executor copies Rows(field=x) to the internal _field argument before
		// forwarding (a documented backwards-compatibility normalisation)
		if k == "_field" {
			if fv, ok := c.Args["field"]; ok && fv == c.Args["_field"] {
				continue
			}
		}
		if !dropArgs[k] {
			keys = append(keys, k)
		}
	}
	sort.Strings(keys)
	rowLike := c.Name == "Row" || c.Name == "Range" || c.Name == "Set" || c.Name == "Clear" || c.Name == "ClearRow" || c.Name == "Store"
	for _, k := range keys {
		v := c.Args[k]
		if b, ok := v.(bool); ok && rowLike {
			// the row of a bool field: the executor translates false/true to rows 0/1 before forwarding
			if b {
				v = int64(1)
			} else {
				v = int64(0)
			}
		}
		sb.WriteString(k + "=" + canonArg(v) + ",")
	}
	sb.WriteString(")")
	return sb.String()
}

func canonArg(v interface{}) string {
	switch x := v.(type) {
	case nil:
		return "null"
	case int64:
		return fmt.Sprintf("int(%d)", x)
	case uint64:
		return fmt.Sprintf("int(%d)", x)
	case int:
		return fmt.Sprintf("int(%d)", x)
	case float64:
		return fmt.Sprintf("float(%v)", x)
	case string:
		return fmt.Sprintf("str(%q)", x)
	case bool:
		return fmt.Sprintf("bool(%v)", x)
	case *pql.Condition:
		return "cond(" + x.Op.String() + " " + canonArg(x.Value) + ")"
	case *pql.Call:
		return "call(" + canonCall(x, nil) + ")"
	case []interface{}:
		var p []string
		for _, e := range x {
			p = append(p, canonArg(e))
		}
		return "list[" + strings.Join(p, " ") + "]"
	case []int64:
		var p []string
		for _, e := range x {
			p = append(p, canonArg(e))
		}
		return "list[" + strings.Join(p, " ") + "]"
	case []uint64:
		var p []string
		for _, e := range x {
			p = append(p, canonArg(e))
		}
		return "list[" + strings.Join(p, " ") + "]"
	}
	return fmt.Sprintf("%T(%v)", v, v)
}

// ---- C26 ------------------------------------------------------------------------

type c26State struct {
	cur     []string // canonical top-level calls of the client query in flight
	curText string
}

func c26Prepare(d *db) {
	st := &c26State{}
	d.aux = st
	d.onQuery = func(q string) {
		st.curText = q
		st.cur = nil
		parsed, err := pql.ParseString(q)
		if err != nil {
			return
		}
		for _, c := range parsed.Calls {
			st.cur = append(st.cur, canonCall(c, nil))
		}
	}
	d.cl.net.Taps = append(d.cl.net.Taps, func(ev *simrt.NetEvent) {
		if ev.Class != "query" || ev.Src == "client" || ev.Src == "" || len(st.cur) == 0 {
			return
		}
		var req pilosa.QueryRequest
		if err := (proto.Serializer{}).Unmarshal(ev.ReqBody, &req); err != nil {
			return
		}
		fq, err := pql.ParseString(req.Query)
		if err != nil {
			d.c.Fail("forward-unparseable", "client query %q: %s forwarded %q to %s, which does not parse: %v", st.curText, ev.Src, req.Query, ev.Dst, err)
			return
		}
		d.c.Probe("forwarded-queries-reparsed")
		for _, fc := range fq.Calls {
			got := canonCall(fc, nil)
			ok := false
			for _, w := range st.cur {
				if w == got {
					ok = true
				}
			}
			if !ok && fc.Name == "TopN" {
				// the second pass of TopN adds the candidate ids
				g2 := canonCall(fc, map[string]bool{"ids": true})
				for _, cc := range mustParse(st.curText) {
					if cc.Name == "TopN" && canonCall(cc, map[string]bool{"ids": true}) == g2 {
						ok = true
					}
				}
			}
			if !ok {
				d.c.Fail("forward-changed", "client query %q: %s forwarded %q to %s;\n forwarded call: %s\n client calls:   %v", st.curText, ev.Src, req.Query, ev.Dst, got, st.cur)
				return
			}
		}
	})
}

func mustParse(q string) []*pql.Call {
	p, err := pql.ParseString(q)
	if err != nil {
		return nil
	}
	return p.Calls
}

// pqlString renders a string literal using only the escapes of the grammar.
func pqlString(s string) string {
	s = strings.ReplaceAll(s, `\`, `\\`)
	s = strings.ReplaceAll(s, `"`, `\"`)
	return `"` + s + `"`
}

var c26Strings = []string{"plain", "ünïcødé ✓", "with space", "q\"uote", "back\\slash", "tab\there", "new\nline", "comma,semi;colon", "single'quote", "", "=()[]", "日本語"}

// attrsFromOp decodes the attribute list of an attrs op: S[2] is a JSON object
// {"k": value}, values are string, int (as float64 without fraction), bool, float or null.
func attrsFromOp(s string) map[string]interface{} {
	var m map[string]interface{}
	json.Unmarshal([]byte(s), &m)
	return m
}

func attrsPQL(m map[string]interface{}) (string, map[string]string) {
	keys := make([]string, 0, len(m))
	for k := range m {
		keys = append(keys, k)
	}
	sort.Strings(keys)
	var parts []string
	want := map[string]string{}
	for _, k := range keys {
		switch v := m[k].(type) {
		case nil:
			parts = append(parts, k+"=null")
			want[k] = "null"
		case string:
			parts = append(parts, k+"="+pqlString(v))
			want[k] = canonArg(v)
		case bool:
			parts = append(parts, fmt.Sprintf("%s=%v", k, v))
			want[k] = canonArg(v)
		case float64:
			if v == float64(int64(v)) && !strings.HasPrefix(k, "f") {
				parts = append(parts, fmt.Sprintf("%s=%d", k, int64(v)))
				want[k] = canonArg(int64(v))
			} else {
				txt := strconv.FormatFloat(v, 'f', -1, 64)
				if !strings.Contains(txt, ".") {
					txt += ".5"
					v += 0.5
				}
				parts = append(parts, k+"="+txt)
				want[k] = canonArg(v)
			}
		}
	}
	return strings.Join(parts, ", "), want
}

func c26Extra(d *db, op simrt.Op) bool {
	S, I := op.S, op.I
	switch op.K {
	case "rowattrs", "colattrs": // S=[index,field,json] I=[id,node]
		ix, f := d.lookup(S)
		if f == nil {
			return true
		}
		m := attrsFromOp(S[2])
		txt, want := attrsPQL(m)
		if txt == "" {
			return true
		}
		q := fmt.Sprintf("SetRowAttrs(%s, %d, %s)", f.name, I[0], txt)
		if op.K == "colattrs" {
			q = fmt.Sprintf("SetColumnAttrs(%d, %s)", I[0], txt)
		}
		// parse half: the parser must yield exactly the written values
		parsed, err := pql.ParseString(q)
		if err != nil {
			d.c.Fail("parse-error", "%q: %v", q, err)
			return true
		}
		for k, w := range want {
			if got := canonArg(parsed.Calls[0].Args[k]); got != w {
				d.c.Fail("parse-value", "%q: argument %s parsed as %s, written %s", q, k, got, w)
				return true
			}
		}
		d.c.Probe("parse-checked")
		if _, err := d.query(d.node(I[1]), ix.name, q); err != nil {
			d.fail("query-error", "%s: %v", q, err)
		}
		d.last = q
		return true
	case "topnattr": // S=[index,field,attrName,json list] I=[node,n]
		ix, f := d.lookup(S)
		if f == nil || (f.typ != "set" && f.typ != "mutex") || f.cacheType == pilosa.CacheTypeNone {
			return true
		}
		var vals []interface{}
		json.Unmarshal([]byte(S[3]), &vals)
		var parts []string
		for _, v := range vals {
			switch x := v.(type) {
			case string:
				parts = append(parts, pqlString(x))
			case float64:
				parts = append(parts, fmt.Sprintf("%d", int64(x)))
			case bool:
				parts = append(parts, fmt.Sprint(x))
			}
		}
		q := fmt.Sprintf("TopN(%s, n=%d, attrName=%s, attrValues=[%s])", f.name, I[1], pqlString(S[2]), strings.Join(parts, ","))
		if _, err := d.query(d.node(I[0]), ix.name, q); err != nil {
			d.fail("query-error", "%s: %v", q, err)
		}
		return true
	case "parsecall": // I=[seed]: a call with arguments of every kind in a random order
		r := simrt.NewRand(uint64(I[0]))
		type arg struct{ key, txt, want string }
		var pool []arg
		add := func(k, txt, want string) { pool = append(pool, arg{k, txt, want}) }
		n1, n2 := int64(r.Intn(100)), int64(100+r.Intn(100))
		add("i", fmt.Sprint(n1), canonArg(n1))
		add("neg", fmt.Sprint(-n2), canonArg(-n2))
		add("f", "12.25", canonArg(12.25))
		add("s", pqlString(c26Strings[r.Intn(len(c26Strings))]), "")
		add("b", simrt.Pick(r, "true", "false"), "")
		add("nul", "null", "null")
		add("li", fmt.Sprintf("[%d,%d]", n1, n2), fmt.Sprintf("list[%s %s]", canonArg(n1), canonArg(n2)))
		add("gt", fmt.Sprintf("> %d", n1), "cond(> "+canonArg(n1)+")")
		add("bt", fmt.Sprintf(">< [%d,%d]", n1, n2), fmt.Sprintf("cond(>< list[%s %s])", canonArg(n1), canonArg(n2)))
		add("nn", "!= null", "cond(!= null)")
		add("limit", "10", canonArg(int64(10)))
		// fix up the wants that depend on the drawn text
		for i := range pool {
			switch pool[i].key {
			case "b":
				pool[i].want = canonArg(pool[i].txt == "true")
			}
		}
		strIdx := 3
		strVal := c26Strings[r.Intn(len(c26Strings))]
		pool[strIdx].txt, pool[strIdx].want = pqlString(strVal), canonArg(strVal)
		perm := r.Perm(len(pool))
		nargs := 2 + r.Intn(len(pool)-1)
		var parts []string
		want := map[string]string{}
		for _, pi := range perm[:nargs] {
			a := pool[pi]
			if strings.HasPrefix(a.txt, ">") || strings.HasPrefix(a.txt, "!=") {
				parts = append(parts, a.key+" "+a.txt)
			} else {
				parts = append(parts, a.key+"="+a.txt)
			}
			want[a.key] = a.want
		}
		q := "Options(" + strings.Join(parts, ", ") + ")"
		parsed, err := pql.ParseString(q)
		if err != nil || len(parsed.Calls) != 1 {
			d.c.Fail("parse-error", "%q: %v", q, err)
			return true
		}
		for _, k := range simrt.SortedKeys(want) {
			if got := canonArg(parsed.Calls[0].Args[k]); got != want[k] {
				d.c.Fail("parse-value", "%q: argument %s parsed as %s, written %s", q, k, got, want[k])
				return true
			}
		}
		if len(parsed.Calls[0].Args) != len(want) {
			d.c.Fail("parse-value", "%q: %d arguments parsed, %d written", q, len(parsed.Calls[0].Args), len(want))
			return true
		}
		d.c.Probe("parse-checked")
		return true
	case "parseexpr": // S=[index,expr]: parse(print(ast)) must equal ast
		e := parseExpr(S[1])
		q := e.pql()
		parsed, err := pql.ParseString(q)
		if err != nil || len(parsed.Calls) != 1 {
			d.c.Fail("parse-error", "%q: %v", q, err)
			return true
		}
		if got, want := canonCall(parsed.Calls[0], nil), exprCanon(e); got != want {
			d.c.Fail("parse-value", "%q parsed as\n %s\nwritten\n %s", q, got, want)
		}
		d.c.Probe("parse-checked")
		return true
	}
	return dbExtra(d, op)
}

// exprCanon is the canonical form the harness expects for its own expression
// (independent of the parser): what was written.
func exprCanon(e *expr) string {
	switch e.K {
	case "row":
		if e.B {
			return fmt.Sprintf("Row(%s=int(%d),)", e.F, e.R&1)
		}
		return fmt.Sprintf("Row(%s=int(%d),)", e.F, e.R)
	case "rowt":
		args := []string{fmt.Sprintf("%s=int(%d)", e.F, e.R)}
		if e.From != 0 {
			args = append(args, fmt.Sprintf("from=str(%q)", pqlTime(e.From)))
		}
		if e.To != 0 {
			args = append(args, fmt.Sprintf("to=str(%q)", pqlTime(e.To)))
		}
		sort.Strings(args)
		return "Row(" + strings.Join(args, ",") + ",)"
	case "rowi":
		switch e.Op {
		case "notnull":
			return fmt.Sprintf("Row(%s=cond(!= null),)", e.F)
		case "><":
			return fmt.Sprintf("Row(%s=cond(>< list[int(%d) int(%d)]),)", e.F, e.V, e.V2)
		}
		return fmt.Sprintf("Row(%s=cond(%s int(%d)),)", e.F, e.Op, e.V)
	case "shift":
		return "Shift(" + exprCanon(e.C[0]) + ";n=int(" + fmt.Sprint(e.N) + "),)"
	}
	name := map[string]string{"union": "Union", "intersect": "Intersect", "difference": "Difference", "xor": "Xor", "not": "Not"}[e.K]
	s := name + "("
	for _, c := range e.C {
		s += exprCanon(c) + ";"
	}
	return s + ")"
}

func genAttrJSON(r *simrt.Rand) string {
	m := map[string]interface{}{}
	n := 1 + r.Intn(4)
	for i := 0; i < n; i++ {
		switch r.Intn(5) {
		case 0:
			m[fmt.Sprintf("s%d", i)] = c26Strings[r.Intn(len(c26Strings))]
		case 1:
			m[fmt.Sprintf("i%d", i)] = simrt.Pick(r, 0, 1, -1, 42, -9007199254740, 9007199254740)
		case 2:
			m[fmt.Sprintf("b%d", i)] = r.Bool(0.5)
		case 3:
			m[fmt.Sprintf("f%d", i)] = simrt.Pick(r, 1.5, -2.25, 0.5, 1234.125, 0.0000001, 52.52000659, -0.000123456789)
		default:
			m[fmt.Sprintf("s%d", r.Intn(3))] = nil
		}
	}
	b, _ := json.Marshal(m)
	return string(b)
}

func genC26(r *simrt.Rand, tier string) *simrt.Plan {
	nodes := simrt.Pick(r, 2, 2, 3, 4)
	g := newDBGen(r, nodes)
	g.noStore = true
	track := r.Bool(0.6)
	types := []string{"set", "set"}
	for _, t := range []string{"time", "int", "mutex", "bool"} {
		if r.Bool(0.5) {
			types = append(types, t)
		}
	}
	ops := g.schema(track, types)
	for i := 0; i < 6+r.Intn(10); i++ {
		ops = append(ops, g.write())
	}
	n := 8 + r.Intn(25)
	for i := 0; i < n; i++ {
		fs := g.field("set", "mutex")
		switch x := r.Intn(12); {
		case x < 4:
			e := g.expr(1 + r.Intn(3))
			if r.Bool(0.3) {
				ops = append(ops, simrt.Op{K: "parsecall", I: []int64{int64(r.Uint64() >> 2)}})
			}
			ops = append(ops, simrt.Op{K: "parseexpr", S: []string{g.index, e.json()}},
				simrt.Op{K: simrt.Pick(r, "q", "count"), S: []string{g.index, e.json()}, I: []int64{g.node()}})
		case x < 7:
			ops = append(ops, simrt.Op{K: simrt.Pick(r, "rowattrs", "colattrs"), S: []string{g.index, fs.name, genAttrJSON(r)}, I: []int64{g.row(), g.node()}})
		case x < 8:
			vals, _ := json.Marshal([]interface{}{c26Strings[r.Intn(len(c26Strings))], r.Intn(5), r.Bool(0.5)})
			ops = append(ops, simrt.Op{K: "topnattr", S: []string{g.index, fs.name, "s0", string(vals)}, I: []int64{g.node(), int64(1 + r.Intn(3))}})
		case x < 9:
			ids := []int64{g.row()}
			if y := g.row(); y != ids[0] {
				ids = append(ids, y)
			}
			ops = append(ops, simrt.Op{K: "topn", S: []string{g.index, fs.name, g.filterJSON(0.3)}, I: append([]int64{g.node(), 0}, ids...)})
		case x < 10:
			if fi := g.field("int"); fi != nil {
				ops = append(ops, simrt.Op{K: simrt.Pick(r, "sum", "min", "max"), S: []string{g.index, fi.name, g.filterJSON(0.5)}, I: []int64{g.node()}})
			}
		case x < 11:
			ops = append(ops, simrt.Op{K: "groupby", S: []string{g.index, fs.name, g.field("set", "mutex").name, g.filterJSON(0.4)}, I: []int64{g.node(), int64(r.Intn(3)), 0, 0}})
		default:
			ops = append(ops, g.write())
		}
	}
	return dbPlan(r, nodes, simrt.Pick(r, 1, 1, 2), ops)
}

// ---- C27 ------------------------------------------------------------------------

type tapSerializer struct {
	real pilosa.Serializer
	d    *db
	node string
}

func (t *tapSerializer) Marshal(m pilosa.Message) ([]byte, error) {
	b, err := t.real.Marshal(m)
	if err != nil {
		return b, err
	}
	t.check(m, b, "marshal")
	c27Keep(m, b)
	c27NoteSent(m, b)
	return b, err
}

// encodings of real messages seen in this run, per type (mutated by the "garbage" op)
var c27Samples = map[reflect.Type][][]byte{}

func c27Keep(m pilosa.Message, b []byte) {
	rt := reflect.TypeOf(m)
	if rt == nil || len(b) == 0 || len(b) > 400 || len(c27Samples[rt]) >= 12 {
		return
	}
	c27Samples[rt] = append(c27Samples[rt], append([]byte(nil), b...))
}

func (t *tapSerializer) Unmarshal(b []byte, m pilosa.Message) error {
	err := t.real.Unmarshal(b, m)
	if err == nil {
		c27CheckReceived(t.d, t.node, m, b)
		// fixpoint: what was decoded must encode and decode to itself
		if b2, err2 := t.real.Marshal(m); err2 == nil {
			t.check(m, b2, "unmarshal-fixpoint")
		}
	}
	return err
}

func (t *tapSerializer) check(m pilosa.Message, b []byte, how string) {
	rt := reflect.TypeOf(m)
	if rt == nil || rt.Kind() != reflect.Ptr {
		return
	}
	fresh := reflect.New(rt.Elem()).Interface()
	defer func() {
		if r := recover(); r != nil {
			t.d.c.Fail("codec-panic", "%s on %s: decoding the encoding of %T panicked: %v", how, t.node, m, r)
		}
	}()
	if err := t.real.Unmarshal(b, fresh); err != nil {
		t.d.c.Fail("codec-error", "%s on %s: the encoding of %T does not decode: %v", how, t.node, m, err)
		return
	}
	a, c := canonVal(m), canonVal(fresh)
	t.d.c.Probe("codec:" + rt.Elem().Name())
	if a != c {
		t.d.c.Fail("codec-differs", "%s on %s: %T changed by encode/decode:\n sent:    %s\n decoded: %s", how, t.node, m, clip(a), clip(c))
	}
}

func clip(s string) string {
	if len(s) > 900 {
		return s[:900] + "…"
	}
	return s
}

func c27Prepare(d *db) {
	c27Samples = map[reflect.Type][][]byte{} // per run
	c27SentTypes = map[string]map[reflect.Type]bool{}
	d.cl.serWrap = func(n *simNode, s pilosa.Serializer) pilosa.Serializer {
		return &tapSerializer{real: s, d: d, node: n.id}
	}
}

var c27Types = []func() pilosa.Message{
	func() pilosa.Message { return &pilosa.CreateShardMessage{} }, func() pilosa.Message { return &pilosa.CreateIndexMessage{} },
	func() pilosa.Message { return &pilosa.DeleteIndexMessage{} }, func() pilosa.Message { return &pilosa.CreateFieldMessage{} },
	func() pilosa.Message { return &pilosa.DeleteFieldMessage{} }, func() pilosa.Message { return &pilosa.DeleteAvailableShardMessage{} },
	func() pilosa.Message { return &pilosa.CreateViewMessage{} }, func() pilosa.Message { return &pilosa.DeleteViewMessage{} },
	func() pilosa.Message { return &pilosa.ClusterStatus{} }, func() pilosa.Message { return &pilosa.ResizeInstruction{} },
	func() pilosa.Message { return &pilosa.ResizeInstructionComplete{} }, func() pilosa.Message { return &pilosa.SetCoordinatorMessage{} },
	func() pilosa.Message { return &pilosa.UpdateCoordinatorMessage{} }, func() pilosa.Message { return &pilosa.NodeStateMessage{} },
	func() pilosa.Message { return &pilosa.RecalculateCaches{} }, func() pilosa.Message { return &pilosa.NodeEvent{} },
	func() pilosa.Message { return &pilosa.NodeStatus{} }, func() pilosa.Message { return &pilosa.Node{} },
	func() pilosa.Message { return &pilosa.QueryRequest{} }, func() pilosa.Message { return &pilosa.QueryResponse{} },
	func() pilosa.Message { return &pilosa.ImportRequest{} }, func() pilosa.Message { return &pilosa.ImportValueRequest{} },
	func() pilosa.Message { return &pilosa.ImportRoaringRequest{} }, func() pilosa.Message { return &pilosa.ImportResponse{} },
	func() pilosa.Message { return &pilosa.BlockDataRequest{} }, func() pilosa.Message { return &pilosa.BlockDataResponse{} },
	func() pilosa.Message { return &pilosa.TranslateKeysRequest{} }, func() pilosa.Message { return &pilosa.TranslateKeysResponse{} },
}

func c27Extra(d *db, op simrt.Op) bool {
	switch op.K {
	case "codecvals":
		c27Values(d, op)
		return true
	case "setcoord":
		if d.downNode == nil {
			c27SetCoordinator(d)
		}
		return true
	case "garbage": // I=[seed]: arbitrary and damaged bytes into Unmarshal of every message type
		r := simrt.NewRand(uint64(op.I[0]))
		ser := proto.Serializer{}
		for ti, mk := range c27Types {
			for k := 0; k < 46; k++ {
				n := r.Intn(40)
				if k == 0 {
					n = 0 // the empty payload is a valid encoding of every protobuf message
				}
				buf := make([]byte, n)
				for i := range buf {
					buf[i] = byte(r.Uint64())
				}
				if k >= 6 {
					// well-formed protobuf with arbitrary field numbers, small values and nested
					// messages: fields and sub-messages are present or absent at random
					buf = c27ProtoFuzz(r, 3)
				}
				if samples := c27Samples[reflect.TypeOf(mk())]; k >= 16 && len(samples) > 0 {
					// the encoding of a real message of this run with one or two bytes replaced
					// by small numbers (type tags, counts, lengths) or a piece cut out
					buf = append([]byte(nil), samples[r.Intn(len(samples))]...)
					for j := 1 + r.Intn(2); j > 0; j-- {
						i := r.Intn(len(buf))
						if r.Bool(0.25) && len(buf) > 2 {
							e := i + 1 + r.Intn(len(buf)-i)
							buf = append(buf[:i:i], buf[e:]...)
							if len(buf) == 0 {
								break
							}
						} else {
							buf[i] = byte(simrt.Pick(r, 0, 1, 2, 3, 4, 5, 6, 7, 8, 9, 10, 11, 99, 255))
						}
					}
				}
				if k%2 == 1 {
					// damage a valid encoding of a zero value instead
					func() {
						defer func() {
							if rec := recover(); rec != nil {
								d.c.Fail("marshal-panic", "Marshal of a zero %T panicked: %v", mk(), rec)
							}
						}()
						if b, err := ser.Marshal(mk()); err == nil && len(b) > 0 {
							buf = append(b, buf...)
						}
					}()
				}
				func() {
					defer func() {
						if rec := recover(); rec != nil {
							d.c.Fail("unmarshal-panic", "Unmarshal(%x) into %T panicked: %v", buf, c27Types[ti](), rec)
						}
					}()
					_ = ser.Unmarshal(buf, mk())
				}()
				if d.c.Failed() {
					return true
				}
			}
		}
		d.c.Probe("garbage-decodes")
		return true
	}
	return c26Extra(d, op)
}

// c27ProtoFuzz returns a syntactically valid protobuf message: up to five fields numbered
// 1-8 that are varints (small, or a type-like constant) or length-delimited (a nested message
// of the same kind, a short string, or nothing).
func c27ProtoFuzz(r *simrt.Rand, depth int) []byte {
	var out []byte
	for n := r.Intn(6); n > 0; n-- {
		field := byte(1 + r.Intn(8))
		if depth > 0 && r.Bool(0.5) {
			var inner []byte
			switch r.Intn(3) {
			case 0:
				inner = c27ProtoFuzz(r, depth-1)
			case 1:
				inner = []byte("ab")
			}
			if len(inner) > 120 {
				inner = inner[:0]
			}
			out = append(out, field<<3|2, byte(len(inner)))
			out = append(out, inner...)
		} else {
			out = append(out, field<<3|0, byte(simrt.Pick(r, 0, 1, 2, 3, 4, 5, 6, 7, 8, 9, 10, 99)))
		}
	}
	return out
}

func genC27(r *simrt.Rand, tier string) *simrt.Plan {
	p := genC26(r, tier)
	ops := p.Clients[0]
	g := &dbGen{r: r, index: "i", nodes: int(p.Knobs["nodes"])}
	// more message kinds: schema deletion, recalculate, garbage decoding
	ops = append(ops, simrt.Op{K: "recalc"}, simrt.Op{K: "garbage", I: []int64{int64(r.Uint64() >> 2)}})
	ops = append(ops, simrt.Op{K: "codecvals", I: []int64{int64(r.Uint64() >> 2), int64(simrt.Pick(r, 2, 4, 8)), int64(simrt.Pick(r, 0, 0, 0, 0, 0, 0, 1))}})
	if r.Bool(0.6) {
		at := r.Intn(len(ops) + 1)
		ops = append(ops[:at:at], append([]simrt.Op{{K: "setcoord"}}, ops[at:]...)...)
	}
	if r.Bool(0.5) {
		ops = append(ops, simrt.Op{K: "mkfield", S: []string{"i", "zz", "set", ""}, I: []int64{0, 0, 0, 100, 0, g.node()}},
			simrt.Op{K: "rmfield", S: []string{"i", "zz"}, I: []int64{g.node()}})
	}
	if r.Bool(0.3) {
		ops = append(ops, simrt.Op{K: "mkindex", S: []string{"tmp"}, I: []int64{1, g.node()}}, simrt.Op{K: "rmindex", S: []string{"tmp"}, I: []int64{g.node()}})
	}
	p.Clients[0] = ops
	return p
}
