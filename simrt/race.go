package simrt

// Lock-discipline checker for shared maps. Instrumented code reports every read
// and write of a map that is a struct field or a package variable (MapR / MapW).
// The simulator knows which locks every task holds, so it can tell when two
// tasks are inside critical sections that do not exclude each other and one of
// them writes the map the other uses: a data race on the map, whatever the
// interleaving the single-runner schedule happens to produce.
//
// A report needs all of:
//   - two different tasks access the same map, at least one access is a write;
//   - the earlier access was made inside a critical section (some lock held) that
//     is still open when the later access happens, so nothing has been released
//     between them;
//   - no lock was held at both accesses with at least one side holding it exclusively;
//   - the later task is not a descendant of the earlier one (fork-join inside a
//     critical section is ordered by the spawn).
// Accesses whose critical sections have all been closed are never compared: what
// orders them (channels, wait groups) is not tracked, so nothing is claimed.

import (
	"fmt"
	"strings"
	"unsafe"
)

type lockHold struct {
	key   uintptr
	w     bool
	epoch int64
}

type mapAcc struct {
	t     *Task
	write bool
	site  string
	holds []lockHold
}

type raceState struct {
	on      bool
	epoch   int64
	held    map[*Task][]lockHold
	acc     map[unsafe.Pointer][]mapAcc
	seen    map[string]bool
	Reports []string
}

// EnableRaceCheck turns the lock-discipline checker on for this run.
func (s *Sched) EnableRaceCheck() {
	s.raceOn.Store(true)
	s.mu.Lock()
	s.race.on = true
	s.race.held = map[*Task][]lockHold{}
	s.race.acc = map[unsafe.Pointer][]mapAcc{}
	s.race.seen = map[string]bool{}
	s.mu.Unlock()
}

// Races returns the reports of this run.
func (s *Sched) Races() []string {
	s.mu.Lock()
	defer s.mu.Unlock()
	return append([]string(nil), s.race.Reports...)
}

// raceAcquire / raceRelease are called with s.mu held.
func (s *Sched) raceAcquire(t *Task, key uintptr, w bool) {
	if !s.race.on || t == nil {
		return
	}
	s.race.epoch++
	s.race.held[t] = append(s.race.held[t], lockHold{key, w, s.race.epoch})
}

func (s *Sched) raceRelease(t *Task, key uintptr, w bool) {
	if !s.race.on || t == nil {
		return
	}
	hs := s.race.held[t]
	for i := len(hs) - 1; i >= 0; i-- {
		if hs[i].key == key && hs[i].w == w {
			s.race.held[t] = append(hs[:i:i], hs[i+1:]...)
			return
		}
	}
}

func (s *Sched) heldBy(t *Task) []lockHold {
	s.mu.Lock()
	defer s.mu.Unlock()
	return s.race.held[t]
}

func (s *Sched) holdOpen(t *Task, epoch int64) bool {
	for _, h := range s.race.held[t] {
		if h.epoch == epoch {
			return true
		}
	}
	return false
}

func (s *Sched) mapAccess(id unsafe.Pointer, write bool, site string) {
	if id == nil {
		return
	}
	t := s.current()
	// a scheduling point, so that critical sections that contain no other one
	// (no nested lock, channel or file operation) can overlap in simulated time
	if len(s.heldBy(t)) > 0 {
		s.park(t, request{kind: rYield, what: "map:" + site})
	}
	s.mu.Lock()
	defer s.mu.Unlock()
	if !s.race.on {
		return
	}
	mine := s.race.held[t]
	list := s.race.acc[id]
	kept := list[:0]
	for _, a := range list {
		// drop records whose critical sections are all closed
		open := false
		for _, h := range a.holds {
			if s.holdOpen(a.t, h.epoch) {
				open = true
				break
			}
		}
		if !open || a.t.done {
			continue
		}
		kept = append(kept, a)
		if a.t == t || !(write || a.write) {
			continue
		}
		if strings.HasPrefix(t.Key, a.t.Key+"/") {
			continue
		}
		excluded := false
		for _, h := range a.holds {
			// a lock both accesses were made under, exclusively on one side at least,
			// orders them whether or not the other task still holds it
			for _, m := range mine {
				if m.key == h.key && (m.w || h.w) {
					excluded = true
				}
			}
		}
		if excluded {
			continue
		}
		k := a.site + "|" + site
		if !s.race.seen[k] {
			s.race.seen[k] = true
			s.race.Reports = append(s.race.Reports, fmt.Sprintf("%s of a shared map at %s by task %s (locks held: %s) while task %s, which %s it at %s, is still inside its critical section (locks held: %s)",
				rw(write), site, t.Key, s.holdsString(mine), a.t.Key, rwPast(a.write), a.site, s.holdsString(a.holds)))
		}
	}
	if len(mine) > 0 {
		if len(kept) >= 8 {
			kept = kept[1:]
		}
		kept = append(kept, mapAcc{t: t, write: write, site: site, holds: append([]lockHold(nil), mine...)})
	}
	if len(kept) == 0 {
		delete(s.race.acc, id)
	} else {
		s.race.acc[id] = kept
	}
}

func rw(w bool) string {
	if w {
		return "write"
	}
	return "read"
}

func rwPast(w bool) string {
	if w {
		return "wrote"
	}
	return "read"
}

func (s *Sched) holdsString(hs []lockHold) string {
	if len(hs) == 0 {
		return "none"
	}
	var out []string
	for _, h := range hs {
		m := "R"
		if h.w {
			m = "W"
		}
		out = append(out, fmt.Sprintf("%s@%x", m, h.key&0xffff))
	}
	return strings.Join(out, ",")
}

func mapID[M ~map[K]V, K comparable, V any](m M) unsafe.Pointer {
	return *(*unsafe.Pointer)(unsafe.Pointer(&m))
}

// MapR reports a read of a shared map and returns it.
func MapR[M ~map[K]V, K comparable, V any](m M, site string) M {
	if s := cur.Load(); s != nil && s.raceOn.Load() {
		s.mapAccess(mapID(m), false, site)
	}
	return m
}

// MapW reports a write (assignment through an index expression, delete) of a shared map and returns it.
func MapW[M ~map[K]V, K comparable, V any](m M, site string) M {
	if s := cur.Load(); s != nil && s.raceOn.Load() {
		s.mapAccess(mapID(m), true, site)
	}
	return m
}
