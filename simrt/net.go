package simrt

import (
	"bytes"
	"context"
	"errors"
	"fmt"
	"io"
	"net/http"
	"regexp"
	"sort"
	"strings"
	"sync"
	"time"
)

// Net is the simulated network: every node's http.Client uses a Transport of
// this Net; a request is delivered by calling the destination node's real
// http.Handler in-process, in the caller's task. Faults are addressed as
// (source, destination, route class, n-th occurrence).
type Net struct {
	S  *Sched
	mu sync.Mutex

	handlers map[string]http.Handler
	down     map[string]bool
	group    map[string]int // partition group per host; hosts in different groups cannot talk
	faults   []*NetFault
	counts   map[string]int
	Taps     []func(ev *NetEvent)
	Stats    map[string]int

	// StreamClasses lists route classes whose handler keeps writing until the
	// client goes away; they run in their own task with a piped body.
	StreamClasses map[string]bool
	streamN       int
}

// NetFault is one planned network fault.
type NetFault struct {
	Kind  string // lose-request, lose-response, duplicate, delay, corrupt, cut-stream, error-status
	Src   string // "" = any
	Dst   string // "" = any
	Class string // "" = any; regexp matched against the route class
	N     int    // n-th matching occurrence (1-based); 0 = every occurrence
	Arg   int64  // delay ms / byte offset / status code
	seen  int
	Fired int
	re    *regexp.Regexp
}

// NetEvent is what taps observe for every delivered request.
type NetEvent struct {
	Src, Dst, Method, Path, Query, Class string
	Header                               http.Header
	ReqBody                              []byte
	Status                               int
	RespHeader                           http.Header
	RespBody                             []byte
	Seq                                  int
	Err                                  string
}

// NewNet creates a network bound to s.
func NewNet(s *Sched) *Net {
	return &Net{S: s, handlers: map[string]http.Handler{}, down: map[string]bool{}, group: map[string]int{}, counts: map[string]int{},
		Stats: map[string]int{}, StreamClasses: map[string]bool{"translate-data": true}}
}

// Register attaches a node's handler under host ("host:port").
func (n *Net) Register(host string, h http.Handler) {
	n.mu.Lock()
	n.handlers[host] = h
	n.mu.Unlock()
}

// SetDown marks a host unreachable (or reachable again).
func (n *Net) SetDown(host string, down bool) {
	n.mu.Lock()
	n.down[host] = down
	n.mu.Unlock()
}

// Partition puts each listed host into the given group (0 = default group).
func (n *Net) Partition(hosts []string, group int) {
	n.mu.Lock()
	for _, h := range hosts {
		n.group[h] = group
	}
	n.mu.Unlock()
}

// Heal removes all partitions.
func (n *Net) Heal() {
	n.mu.Lock()
	n.group = map[string]int{}
	n.mu.Unlock()
}

// AddFault plans a fault.
func (n *Net) AddFault(f *NetFault) {
	if f.Class != "" {
		f.re = regexp.MustCompile("^(?:" + f.Class + ")$")
	}
	n.mu.Lock()
	n.faults = append(n.faults, f)
	n.mu.Unlock()
}

// ClearFaults removes all planned faults (faults stop).
func (n *Net) ClearFaults() {
	n.mu.Lock()
	n.faults = nil
	n.mu.Unlock()
}

// FaultsFired reports how often each fault kind actually fired.
func (n *Net) FaultsFired() map[string]int {
	n.mu.Lock()
	defer n.mu.Unlock()
	out := map[string]int{}
	for k, v := range n.Stats {
		out[k] = v
	}
	return out
}

var routePatterns = []struct {
	re    *regexp.Regexp
	class string
}{
	{regexp.MustCompile(`^POST /index/[^/]+/query$`), "query"},
	{regexp.MustCompile(`^POST /index/[^/]+/field/[^/]+/import$`), "import"},
	{regexp.MustCompile(`^POST /index/[^/]+/field/[^/]+/import-roaring/\d+$`), "import-roaring"},
	{regexp.MustCompile(`^POST /internal/cluster/message$`), "cluster-message"},
	{regexp.MustCompile(`^GET /internal/fragment/blocks$`), "fragment-blocks"},
	{regexp.MustCompile(`^GET /internal/fragment/block/data$`), "fragment-block-data"},
	{regexp.MustCompile(`^GET /internal/fragment/data$`), "fragment-data"},
	{regexp.MustCompile(`^GET /internal/fragment/nodes$`), "fragment-nodes"},
	{regexp.MustCompile(`^POST /internal/index/[^/]+/attr/diff$`), "attr-diff"},
	{regexp.MustCompile(`^POST /internal/index/[^/]+/field/[^/]+/attr/diff$`), "attr-diff"},
	{regexp.MustCompile(`^GET /internal/translate/data$`), "translate-data"},
	{regexp.MustCompile(`^POST /internal/translate/keys$`), "translate-keys"},
	{regexp.MustCompile(`^GET /export$`), "export"},
	{regexp.MustCompile(`^GET /schema$`), "schema"},
	{regexp.MustCompile(`^POST /schema$`), "schema-post"},
	{regexp.MustCompile(`^GET /version$`), "version"},
	{regexp.MustCompile(`^GET /status$`), "status"},
	{regexp.MustCompile(`^GET /internal/nodes$`), "nodes"},
	{regexp.MustCompile(`^GET /internal/shards/max$`), "shards-max"},
	{regexp.MustCompile(`^(POST|DELETE) /index/[^/]+$`), "index"},
	{regexp.MustCompile(`^(POST|DELETE) /index/[^/]+/field/[^/]+$`), "field"},
	{regexp.MustCompile(`^POST /recalculate-caches$`), "recalculate-caches"},
	{regexp.MustCompile(`^POST /cluster/resize/`), "resize-admin"},
}

// Classify maps a request to a route class.
func Classify(method, path string, body []byte) string {
	key := method + " " + path
	for _, p := range routePatterns {
		if p.re.MatchString(key) {
			if p.class == "cluster-message" && len(body) > 0 {
				return fmt.Sprintf("cluster-message/%d", body[0])
			}
			return p.class
		}
	}
	return "other"
}

// Transport returns the RoundTripper node src uses.
func (n *Net) Transport(src string) http.RoundTripper { return &simTransport{n: n, src: src} }

type simTransport struct {
	n   *Net
	src string
}

type netError struct{ msg string }

func (e *netError) Error() string   { return e.msg }
func (e *netError) Timeout() bool   { return false }
func (e *netError) Temporary() bool { return true }

// ErrNet is returned (wrapped by net/http in a *url.Error) for lost messages.
var ErrNet = errors.New("simnet")

func (n *Net) matchFaults(src, dst, class string) []*NetFault {
	n.mu.Lock()
	defer n.mu.Unlock()
	var out []*NetFault
	for _, f := range n.faults {
		if f.Src != "" && f.Src != src {
			continue
		}
		if f.Dst != "" && f.Dst != dst {
			continue
		}
		if f.re != nil && !f.re.MatchString(class) {
			continue
		}
		f.seen++
		if f.N != 0 && f.seen != f.N {
			continue
		}
		f.Fired++
		n.Stats["fault:"+f.Kind]++
		out = append(out, f)
	}
	return out
}

type respRecorder struct {
	hdr    http.Header
	status int
	buf    bytes.Buffer
}

func (r *respRecorder) Header() http.Header { return r.hdr }
func (r *respRecorder) WriteHeader(c int) {
	if r.status == 0 {
		r.status = c
	}
}
func (r *respRecorder) Write(b []byte) (int, error) {
	if r.status == 0 {
		r.status = 200
	}
	return r.buf.Write(b)
}
func (r *respRecorder) Flush() {}

// streamWriter feeds a long-lived response into a pipe read by the client.
type streamWriter struct {
	hdr     http.Header
	status  int
	started chan struct{}
	once    sync.Once
	pw      *io.PipeWriter
}

func (w *streamWriter) Header() http.Header { return w.hdr }
func (w *streamWriter) WriteHeader(c int) {
	w.once.Do(func() { w.status = c; close(w.started) })
}
func (w *streamWriter) Write(b []byte) (int, error) {
	w.WriteHeader(200)
	Yield("stream-write")
	n, err := w.pw.Write(b)
	return n, err
}
func (w *streamWriter) Flush() {}

type streamBody struct {
	pr     *io.PipeReader
	cancel context.CancelFunc
	limit  int64 // cut-stream after this many bytes; <0 = none
	read   int64
}

func (b *streamBody) Read(p []byte) (int, error) {
	if b.limit >= 0 && b.read >= b.limit {
		return 0, &netError{"simnet: stream cut"}
	}
	if b.limit >= 0 && int64(len(p)) > b.limit-b.read {
		p = p[:b.limit-b.read]
	}
	n, err := b.pr.Read(p)
	b.read += int64(n)
	Yield("stream-read")
	return n, err
}

func (b *streamBody) Close() error {
	b.cancel()
	return b.pr.Close()
}

func (t *simTransport) RoundTrip(req *http.Request) (*http.Response, error) {
	n := t.n
	dst := req.URL.Host
	var body []byte
	if req.Body != nil {
		var err error
		body, err = io.ReadAll(req.Body)
		req.Body.Close()
		if err != nil {
			return nil, err
		}
	}
	class := Classify(req.Method, req.URL.Path, body)
	Yield("net-send")
	n.mu.Lock()
	h := n.handlers[dst]
	down := n.down[dst] || n.down[t.src]
	parted := t.src != "" && n.group[t.src] != n.group[dst]
	key := t.src + ">" + dst + ">" + class
	n.counts[key]++
	seq := n.counts[key]
	n.Stats["rpc:"+class]++
	n.mu.Unlock()
	ev := &NetEvent{Src: t.src, Dst: dst, Method: req.Method, Path: req.URL.Path, Query: req.URL.RawQuery, Class: class, Header: req.Header, ReqBody: body, Seq: seq}
	fail := func(why string) (*http.Response, error) {
		ev.Err = why
		n.tap(ev)
		return nil, &netError{"simnet: " + why + " " + t.src + "->" + dst + " " + class}
	}
	if h == nil {
		return fail("no such host")
	}
	if down {
		n.bump("blocked:down")
		return fail("connection refused")
	}
	if parted {
		n.bump("blocked:partition")
		return fail("partitioned")
	}
	if err := req.Context().Err(); err != nil {
		return nil, err
	}
	loseResp, dup := false, false
	cut := int64(-1)
	for _, f := range n.matchFaults(t.src, dst, class) {
		switch f.Kind {
		case "lose-request":
			return fail("request lost")
		case "lose-response":
			loseResp = true
		case "duplicate":
			dup = true
		case "delay":
			Sleep(time.Duration(f.Arg) * time.Millisecond)
			if err := req.Context().Err(); err != nil {
				return nil, err
			}
		case "corrupt":
			body = corruptBytes(body, f.Arg)
			ev.ReqBody = body
		case "cut-stream":
			cut = f.Arg
		}
	}
	mk := func(ctx context.Context) *http.Request {
		r2 := req.Clone(ctx)
		r2.Body = io.NopCloser(bytes.NewReader(body))
		r2.ContentLength = int64(len(body))
		r2.RequestURI = req.URL.RequestURI()
		r2.RemoteAddr = t.src
		if r2.Host == "" {
			r2.Host = dst
		}
		return r2
	}
	if n.StreamClasses[class] {
		ctx, cancel := context.WithCancel(req.Context())
		pr, pw := io.Pipe()
		sw := &streamWriter{hdr: http.Header{}, started: make(chan struct{}), pw: pw}
		n.mu.Lock()
		n.streamN++
		id := n.streamN
		n.mu.Unlock()
		tok := Spawn(fmt.Sprintf("stream:%s>%s#%d", t.src, dst, id))
		go func() {
			GoStart(tok)
			defer GoEnd()
			h.ServeHTTP(sw, mk(ctx))
			sw.WriteHeader(200)
			pw.Close()
		}()
		Yield("stream-wait")
		<-sw.started
		Yield("stream-started")
		ev.Status = sw.status
		n.tap(ev)
		return &http.Response{StatusCode: sw.status, Status: http.StatusText(sw.status), Header: sw.hdr, Body: &streamBody{pr: pr, cancel: cancel, limit: cut}, Request: req, Proto: "HTTP/1.1", ProtoMajor: 1, ProtoMinor: 1}, nil
	}
	rec := &respRecorder{hdr: http.Header{}}
	h.ServeHTTP(rec, mk(req.Context()))
	if dup {
		rec2 := &respRecorder{hdr: http.Header{}}
		h.ServeHTTP(rec2, mk(req.Context()))
	}
	if rec.status == 0 {
		rec.status = 200
	}
	Yield("net-recv")
	ev.Status = rec.status
	ev.RespHeader = rec.hdr
	ev.RespBody = rec.buf.Bytes()
	if loseResp {
		ev.Err = "response lost"
		n.tap(ev)
		return nil, &netError{"simnet: response lost " + t.src + "->" + dst + " " + class}
	}
	n.tap(ev)
	rb := rec.buf.Bytes()
	if cut >= 0 && int64(len(rb)) > cut {
		rb = rb[:cut]
	}
	return &http.Response{StatusCode: rec.status, Status: fmt.Sprintf("%d %s", rec.status, http.StatusText(rec.status)), Header: rec.hdr,
		Body: io.NopCloser(bytes.NewReader(rb)), ContentLength: int64(len(rb)), Request: req, Proto: "HTTP/1.1", ProtoMajor: 1, ProtoMinor: 1}, nil
}

func (n *Net) bump(k string) {
	n.mu.Lock()
	n.Stats[k]++
	n.mu.Unlock()
}

func (n *Net) tap(ev *NetEvent) {
	for _, t := range n.Taps {
		t(ev)
	}
}

// corruptBytes damages b deterministically according to arg.
func corruptBytes(b []byte, arg int64) []byte {
	out := append([]byte(nil), b...)
	if len(out) == 0 {
		return []byte{byte(arg)}
	}
	r := NewRand(uint64(arg))
	switch r.Intn(4) {
	case 0: // truncate
		return out[:r.Intn(len(out))]
	case 1: // flip a byte
		out[r.Intn(len(out))] ^= byte(1 + r.Intn(255))
	case 2: // overwrite a few bytes with 0xff
		i := r.Intn(len(out))
		for k := 0; k < 4 && i+k < len(out); k++ {
			out[i+k] = 0xff
		}
	default: // append garbage
		out = append(out, 0xde, 0xad, 0xbe, 0xef)
	}
	return out
}

// Hosts returns the registered hosts in sorted order.
func (n *Net) Hosts() []string {
	n.mu.Lock()
	defer n.mu.Unlock()
	var hs []string
	for h := range n.handlers {
		hs = append(hs, h)
	}
	sort.Strings(hs)
	return hs
}

// RPCCounts returns per-class delivered request counts.
func (n *Net) RPCCounts() map[string]int {
	n.mu.Lock()
	defer n.mu.Unlock()
	out := map[string]int{}
	for k, v := range n.Stats {
		if strings.HasPrefix(k, "rpc:") {
			out[k] = v
		}
	}
	return out
}
