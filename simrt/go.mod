module verif/simrt

go 1.25
