package simrt

import (
	"encoding/binary"
	"sort"
)

// Independent encoders for the two on-disk/on-wire bitmap formats, written from
// the format descriptions (Pilosa: docs/architecture + roaring.go header comment;
// official: RoaringFormatSpec). They share no code with the implementation.

// ContainerKind forces a container encoding; 0 = choose by the format's rule.
type ContainerKind int

const (
	KindAuto ContainerKind = iota
	KindArray
	KindBitmap
	KindRun
)

func groupByKey(vals []uint64) (keys []uint64, groups map[uint64][]uint16) {
	groups = map[uint64][]uint16{}
	seen := map[uint64]bool{}
	for _, v := range vals {
		if seen[v] {
			continue
		}
		seen[v] = true
		k := v >> 16
		groups[k] = append(groups[k], uint16(v))
	}
	for k := range groups {
		keys = append(keys, k)
		g := groups[k]
		sort.Slice(g, func(i, j int) bool { return g[i] < g[j] })
	}
	sort.Slice(keys, func(i, j int) bool { return keys[i] < keys[j] })
	return
}

func runsOf(g []uint16) [][2]uint16 {
	var rs [][2]uint16
	for i := 0; i < len(g); {
		j := i
		for j+1 < len(g) && g[j+1] == g[j]+1 {
			j++
		}
		rs = append(rs, [2]uint16{g[i], g[j]})
		i = j + 1
	}
	return rs
}

func bitmapBytes(g []uint16) []byte {
	b := make([]byte, 8192)
	for _, v := range g {
		b[v>>3] |= 1 << (v & 7)
	}
	return b
}

// EncodePilosa encodes vals in Pilosa's roaring format. kind(key, n, nruns)
// chooses each container's encoding (nil = smallest).
func EncodePilosa(vals []uint64, flags byte, kind func(key uint64, n, nruns int) ContainerKind) []byte {
	keys, groups := groupByKey(vals)
	type cont struct {
		typ  uint16
		n    int
		data []byte
	}
	var cs []cont
	for _, k := range keys {
		g := groups[k]
		rs := runsOf(g)
		ck := KindAuto
		if kind != nil {
			ck = kind(k, len(g), len(rs))
		}
		if ck == KindAuto {
			switch {
			case len(rs)*4+2 < len(g)*2 && len(rs)*4+2 < 8192:
				ck = KindRun
			case len(g) < 4096:
				ck = KindArray
			default:
				ck = KindBitmap
			}
		}
		var c cont
		c.n = len(g)
		switch ck {
		case KindArray:
			c.typ = 1
			c.data = make([]byte, 2*len(g))
			for i, v := range g {
				binary.LittleEndian.PutUint16(c.data[2*i:], v)
			}
		case KindBitmap:
			c.typ = 2
			c.data = bitmapBytes(g)
		case KindRun:
			c.typ = 3
			c.data = make([]byte, 2+4*len(rs))
			binary.LittleEndian.PutUint16(c.data, uint16(len(rs)))
			for i, r := range rs {
				binary.LittleEndian.PutUint16(c.data[2+4*i:], r[0])
				binary.LittleEndian.PutUint16(c.data[4+4*i:], r[1]) // start,last
			}
		}
		cs = append(cs, c)
	}
	out := make([]byte, 8)
	binary.LittleEndian.PutUint32(out, 12348|uint32(flags)<<24)
	binary.LittleEndian.PutUint32(out[4:], uint32(len(cs)))
	for i, c := range cs {
		var h [12]byte
		binary.LittleEndian.PutUint64(h[:], keys[i])
		binary.LittleEndian.PutUint16(h[8:], c.typ)
		binary.LittleEndian.PutUint16(h[10:], uint16(c.n-1))
		out = append(out, h[:]...)
	}
	off := uint32(8 + 16*len(cs))
	for _, c := range cs {
		var o [4]byte
		binary.LittleEndian.PutUint32(o[:], off)
		out = append(out, o[:]...)
		off += uint32(len(c.data))
	}
	for _, c := range cs {
		out = append(out, c.data...)
	}
	return out
}

// EncodeOfficial encodes vals (all < 2^32) in the official Roaring format.
// withRuns selects the cookie with a run bitmap; useRun(key,n,nruns) says which
// containers are run-encoded (only consulted when withRuns).
func EncodeOfficial(vals []uint64, withRuns bool, useRun func(key uint64, n, nruns int) bool) []byte {
	keys, groups := groupByKey(vals)
	size := len(keys)
	var out []byte
	isRun := make([]bool, size)
	if withRuns {
		for i, k := range keys {
			g := groups[k]
			rs := runsOf(g)
			if useRun == nil {
				isRun[i] = len(rs)*4+2 < len(g)*2 || (len(g) > 4096 && len(rs)*4+2 < 8192)
			} else {
				isRun[i] = useRun(k, len(g), len(rs))
			}
		}
		var c [4]byte
		binary.LittleEndian.PutUint32(c[:], 12347|uint32(size-1)<<16)
		out = append(out, c[:]...)
		rb := make([]byte, (size+7)/8)
		for i, r := range isRun {
			if r {
				rb[i/8] |= 1 << (i % 8)
			}
		}
		out = append(out, rb...)
	} else {
		var c [8]byte
		binary.LittleEndian.PutUint32(c[:], 12346)
		binary.LittleEndian.PutUint32(c[4:], uint32(size))
		out = append(out, c[:]...)
	}
	for _, k := range keys {
		var h [4]byte
		binary.LittleEndian.PutUint16(h[:], uint16(k))
		binary.LittleEndian.PutUint16(h[2:], uint16(len(groups[k])-1))
		out = append(out, h[:]...)
	}
	var datas [][]byte
	for i, k := range keys {
		g := groups[k]
		var d []byte
		switch {
		case isRun[i]:
			rs := runsOf(g)
			d = make([]byte, 2+4*len(rs))
			binary.LittleEndian.PutUint16(d, uint16(len(rs)))
			for j, r := range rs {
				binary.LittleEndian.PutUint16(d[2+4*j:], r[0])
				binary.LittleEndian.PutUint16(d[4+4*j:], r[1]-r[0]) // start,length-1
			}
		case len(g) <= 4096:
			d = make([]byte, 2*len(g))
			for j, v := range g {
				binary.LittleEndian.PutUint16(d[2*j:], v)
			}
		default:
			d = bitmapBytes(g)
		}
		datas = append(datas, d)
	}
	if !withRuns || size >= 4 {
		off := uint32(len(out) + 4*size)
		for _, d := range datas {
			var o [4]byte
			binary.LittleEndian.PutUint32(o[:], off)
			out = append(out, o[:]...)
			off += uint32(len(d))
		}
	}
	for _, d := range datas {
		out = append(out, d...)
	}
	return out
}
