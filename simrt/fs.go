package simrt

import (
	"io"
	"os"
)

// fsPoint is a scheduling point and fault-injection point before a mutating
// file-system operation. A non-nil error means the operation must not be
// performed and the error returned to the caller instead.
func fsPoint(op, path string) error {
	s := cur.Load()
	if s == nil {
		return nil
	}
	h := s.FSHook
	if h == nil {
		return nil
	}
	s.park(s.current(), request{kind: rYield, what: "fs:" + op})
	return h(op, path)
}

// FSPoint lets harness code (simulated files) take part in the same numbering.
func FSPoint(op, path string) error { return fsPoint(op, path) }

const mutFlags = os.O_CREATE | os.O_TRUNC

// OSCreate replaces os.Create.
func OSCreate(name string) (*os.File, error) {
	if err := fsPoint("create", name); err != nil {
		return nil, &os.PathError{Op: "open", Path: name, Err: err}
	}
	return os.Create(name)
}

// OSOpenFile replaces os.OpenFile.
func OSOpenFile(name string, flag int, perm os.FileMode) (*os.File, error) {
	if flag&mutFlags != 0 {
		if err := fsPoint("openfile", name); err != nil {
			return nil, &os.PathError{Op: "open", Path: name, Err: err}
		}
	}
	return os.OpenFile(name, flag, perm)
}

// OSRename replaces os.Rename.
func OSRename(a, b string) error {
	if err := fsPoint("rename", b); err != nil {
		return &os.LinkError{Op: "rename", Old: a, New: b, Err: err}
	}
	return os.Rename(a, b)
}

// OSRemove replaces os.Remove.
func OSRemove(name string) error {
	if err := fsPoint("remove", name); err != nil {
		return &os.PathError{Op: "remove", Path: name, Err: err}
	}
	return os.Remove(name)
}

// OSRemoveAll replaces os.RemoveAll.
func OSRemoveAll(name string) error {
	if err := fsPoint("removeall", name); err != nil {
		return &os.PathError{Op: "removeall", Path: name, Err: err}
	}
	return os.RemoveAll(name)
}

// OSMkdir replaces os.Mkdir.
func OSMkdir(name string, perm os.FileMode) error {
	if err := fsPoint("mkdir", name); err != nil {
		return &os.PathError{Op: "mkdir", Path: name, Err: err}
	}
	return os.Mkdir(name, perm)
}

// OSMkdirAll replaces os.MkdirAll. Not counted when the directory exists.
func OSMkdirAll(name string, perm os.FileMode) error {
	if fi, err := os.Stat(name); err == nil && fi.IsDir() {
		return nil
	}
	if err := fsPoint("mkdirall", name); err != nil {
		return &os.PathError{Op: "mkdir", Path: name, Err: err}
	}
	return os.MkdirAll(name, perm)
}

// OSTruncate replaces os.Truncate.
func OSTruncate(name string, size int64) error {
	if err := fsPoint("truncate", name); err != nil {
		return &os.PathError{Op: "truncate", Path: name, Err: err}
	}
	return os.Truncate(name, size)
}

// WriteFile replaces ioutil.WriteFile / os.WriteFile. It is two file-system
// operations, as in the real implementation: open with truncation, then write.
func WriteFile(name string, data []byte, perm os.FileMode) error {
	if err := fsPoint("writefile-open", name); err != nil {
		return &os.PathError{Op: "open", Path: name, Err: err}
	}
	f, err := os.OpenFile(name, os.O_WRONLY|os.O_CREATE|os.O_TRUNC, perm)
	if err != nil {
		return err
	}
	if len(data) > 0 {
		if err := fsPoint("writefile-write", name); err != nil {
			f.Close()
			return &os.PathError{Op: "write", Path: name, Err: err}
		}
	}
	_, err = f.Write(data)
	if err1 := f.Close(); err1 != nil && err == nil {
		err = err1
	}
	return err
}

// FWrite replaces (*os.File).Write.
func FWrite(f *os.File, b []byte) (int, error) {
	if err := fsPoint("write", f.Name()); err != nil {
		return 0, &os.PathError{Op: "write", Path: f.Name(), Err: err}
	}
	return f.Write(b)
}

// FWriteString replaces (*os.File).WriteString.
func FWriteString(f *os.File, s string) (int, error) {
	if err := fsPoint("write", f.Name()); err != nil {
		return 0, &os.PathError{Op: "write", Path: f.Name(), Err: err}
	}
	return f.WriteString(s)
}

// FWriteAt replaces (*os.File).WriteAt.
func FWriteAt(f *os.File, b []byte, off int64) (int, error) {
	if err := fsPoint("writeat", f.Name()); err != nil {
		return 0, &os.PathError{Op: "write", Path: f.Name(), Err: err}
	}
	return f.WriteAt(b, off)
}

// FTruncate replaces (*os.File).Truncate.
func FTruncate(f *os.File, size int64) error {
	if err := fsPoint("ftruncate", f.Name()); err != nil {
		return &os.PathError{Op: "truncate", Path: f.Name(), Err: err}
	}
	return f.Truncate(size)
}

// FSync replaces (*os.File).Sync. In the process-kill model a sync changes
// nothing that survives, so it is a fault point (EIO) but not a state change.
func FSync(f *os.File) error {
	if err := fsPoint("sync", f.Name()); err != nil {
		return &os.PathError{Op: "sync", Path: f.Name(), Err: err}
	}
	return f.Sync()
}

// File wraps an *os.File that is about to be used through an interface
// (io.Writer etc.), so that each write system call stays visible.
type File struct{ *os.File }

// WrapFile replaces an implicit conversion of *os.File to an interface type.
func WrapFile(f *os.File) *File {
	if f == nil {
		return nil
	}
	return &File{f}
}

// Write implements io.Writer.
func (f *File) Write(b []byte) (int, error) { return FWrite(f.File, b) }

// WriteString implements io.StringWriter.
func (f *File) WriteString(s string) (int, error) { return FWriteString(f.File, s) }

// WriteAt implements io.WriterAt.
func (f *File) WriteAt(b []byte, off int64) (int, error) { return FWriteAt(f.File, b, off) }

// Truncate is intercepted.
func (f *File) Truncate(n int64) error { return FTruncate(f.File, n) }

// Sync is intercepted.
func (f *File) Sync() error { return FSync(f.File) }

// ReadFrom implements io.ReaderFrom through Write so that io.Copy stays visible.
func (f *File) ReadFrom(r io.Reader) (int64, error) {
	buf := make([]byte, 32*1024)
	var n int64
	for {
		k, err := r.Read(buf)
		if k > 0 {
			w, werr := f.Write(buf[:k])
			n += int64(w)
			if werr != nil {
				return n, werr
			}
		}
		if err == io.EOF {
			return n, nil
		}
		if err != nil {
			return n, err
		}
	}
}
