package simrt

import (
	"cmp"
	"sort"
	"unsafe"
)

func ptrOf[T any](p *T) uintptr { return uintptr(unsafe.Pointer(p)) }

// Rand is a small, self-contained, seedable PRNG (splitmix64). It is the only
// source of random choices in the simulator.
type Rand struct{ s uint64 }

// NewRand returns a PRNG seeded with seed.
func NewRand(seed uint64) *Rand { return &Rand{s: seed + 0x9e3779b97f4a7c15} }

// Uint64 returns the next value.
func (r *Rand) Uint64() uint64 {
	r.s += 0x9e3779b97f4a7c15
	z := r.s
	z = (z ^ (z >> 30)) * 0xbf58476d1ce4e5b9
	z = (z ^ (z >> 27)) * 0x94d049bb133111eb
	return z ^ (z >> 31)
}

// Intn returns a value in [0,n).
func (r *Rand) Intn(n int) int {
	if n <= 0 {
		return 0
	}
	return int(r.Uint64() % uint64(n))
}

// Int63n returns a value in [0,n).
func (r *Rand) Int63n(n int64) int64 {
	if n <= 0 {
		return 0
	}
	return int64(r.Uint64() % uint64(n))
}

// Float64 returns a value in [0,1).
func (r *Rand) Float64() float64 { return float64(r.Uint64()>>11) / (1 << 53) }

// Bool returns true with probability p.
func (r *Rand) Bool(p float64) bool { return r.Float64() < p }

// Pick returns one of the arguments.
func Pick[T any](r *Rand, xs ...T) T { return xs[r.Intn(len(xs))] }

// Fork derives an independent generator.
func (r *Rand) Fork() *Rand { return NewRand(r.Uint64()) }

// Perm returns a permutation of [0,n).
func (r *Rand) Perm(n int) []int {
	p := make([]int, n)
	for i := range p {
		p[i] = i
	}
	for i := n - 1; i > 0; i-- {
		j := r.Intn(i + 1)
		p[i], p[j] = p[j], p[i]
	}
	return p
}

// SortedKeys returns the keys of m in ascending order. Instrumented code ranges
// over maps through this so iteration order is deterministic.
func SortedKeys[M ~map[K]V, K cmp.Ordered, V any](m M) []K {
	if len(m) == 0 {
		return nil
	}
	ks := make([]K, 0, len(m))
	for k := range m {
		ks = append(ks, k)
	}
	sort.Slice(ks, func(i, j int) bool { return ks[i] < ks[j] })
	shuffleKeys(len(ks), func(i, j int) { ks[i], ks[j] = ks[j], ks[i] })
	return ks
}

// shuffleKeys permutes n sorted keys with the run's map-order generator when the plan asks
// for it (Config.ShuffleMaps). The permutation is a function of the seed and of the order
// of calls, which the single-runner scheduler fixes, so runs stay replayable.
func shuffleKeys(n int, swap func(i, j int)) {
	s := cur.Load()
	if s == nil || !s.cfg.ShuffleMaps || n < 2 {
		return
	}
	s.mu.Lock()
	for i := n - 1; i > 0; i-- {
		swap(i, s.mapRng.Intn(i+1))
	}
	s.mu.Unlock()
}

// Entry is a key/value pair of a map.
type Entry[K cmp.Ordered, V any] struct {
	K K
	V V
}

// SortedEntries returns m's entries ordered by key (the map expression is
// evaluated once).
func SortedEntries[M ~map[K]V, K cmp.Ordered, V any](m M) []Entry[K, V] {
	ks := SortedKeys(m)
	es := make([]Entry[K, V], len(ks))
	for i, k := range ks {
		es[i] = Entry[K, V]{k, m[k]}
	}
	return es
}

// One returns a one-element slice (used to evaluate an expression once in a range clause).
func One[T any](v T) []T { return []T{v} }

// SortedKeysFunc returns the keys of m ordered by less.
func SortedKeysFunc[M ~map[K]V, K comparable, V any](m M, less func(a, b K) bool) []K {
	ks := make([]K, 0, len(m))
	for k := range m {
		ks = append(ks, k)
	}
	sort.Slice(ks, func(i, j int) bool { return less(ks[i], ks[j]) })
	shuffleKeys(len(ks), func(i, j int) { ks[i], ks[j] = ks[j], ks[i] })
	return ks
}

// TaskKey returns the key of the calling task ("" outside a simulation). Child
// tasks carry their parent's key as a prefix.
func TaskKey() string {
	s := cur.Load()
	if s == nil {
		return ""
	}
	return s.current().Key
}
