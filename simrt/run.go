package simrt

import (
	"encoding/json"
	"fmt"
	mrand "math/rand"
	"os"
	"path/filepath"
	"runtime/debug"
	"sort"
	"strconv"
	"strings"
	"sync"
	"testing"
	"testing/synctest"
	"time"
)

// Op is one generated workload operation.
type Op struct {
	K string   `json:"k"`
	I []int64  `json:"i,omitempty"`
	S []string `json:"s,omitempty"`
}

// Fault is one planned fault.
type Fault struct {
	K string  `json:"k"`
	N int64   `json:"n,omitempty"`
	A []int64 `json:"a,omitempty"`
	S string  `json:"s,omitempty"`
}

// Plan is the complete, replayable description of one simulated run.
type Plan struct {
	Prop    string           `json:"prop"`
	Seed    int64            `json:"seed"`
	Tier    string           `json:"tier,omitempty"`
	Knobs   map[string]int64 `json:"knobs,omitempty"`
	Clients [][]Op           `json:"clients"`
	Faults  []Fault          `json:"faults,omitempty"`
	Sched   Config           `json:"sched"`
}

// Knob returns a knob value or the default.
func (p *Plan) Knob(name string, def int64) int64 {
	if v, ok := p.Knobs[name]; ok {
		return v
	}
	return def
}

// Violation is a property violation found by an oracle.
type Violation struct {
	Class string `json:"class"`
	Msg   string `json:"msg"`
}

// Result is what one run reports.
type Result struct {
	Prop      string         `json:"prop"`
	Seed      int64          `json:"seed"`
	Violation *Violation     `json:"violation,omitempty"`
	Inconcl   string         `json:"inconclusive,omitempty"`
	Steps     int            `json:"steps"`
	SimMS     int64          `json:"sim_ms"`
	Sleeps    int            `json:"sleeps"`
	LogHash   string         `json:"loghash"`
	SchedHash string         `json:"schedhash"`
	Probes    map[string]int `json:"probes,omitempty"`
	Leaked    []string       `json:"leaked,omitempty"`
	Adopted   int            `json:"adopted,omitempty"`
	Ops       int            `json:"ops"`
	Log       []string       `json:"log,omitempty"`
}

// Ctx is handed to a property's executor.
type Ctx struct {
	Plan *Plan
	S    *Sched
	Dir  string // scratch directory on tmpfs, removed after the run
	T    *testing.T

	mu     sync.Mutex
	viol   *Violation
	incon  string
	ops    int
	State  interface{} // property-private
	probes map[string]int
}

// Fail records a violation (the first one wins).
func (c *Ctx) Fail(class, format string, a ...interface{}) {
	msg := fmt.Sprintf(format, a...)
	if c.Plan != nil && c.Plan.Prop == "C06" && strings.Contains(msg, "flock: resource temporarily unavailable") {
		// C06 restarts servers in one process on damaged directories; a file handle that a
		// failed open left behind keeps its lock until the garbage collector finalises it,
		// which the simulator does not decide: such a run is not judged (DESIGN.md section 7)
		c.Inconclusive("file-lock-held-by-unfinalised-handle")
		return
	}
	c.mu.Lock()
	if c.viol == nil {
		c.viol = &Violation{Class: class, Msg: msg}
	}
	c.mu.Unlock()
}

// Failed reports whether a violation has been recorded.
func (c *Ctx) Failed() bool { c.mu.Lock(); defer c.mu.Unlock(); return c.viol != nil }

// Inconclusive marks the run as not judged.
func (c *Ctx) Inconclusive(why string) {
	c.mu.Lock()
	if c.incon == "" {
		c.incon = why
	}
	c.mu.Unlock()
}

// Stopped reports whether the run has a violation or was marked inconclusive.
func (c *Ctx) Stopped() bool { c.mu.Lock(); defer c.mu.Unlock(); return c.viol != nil || c.incon != "" }

// Probe counts a reached condition.
func (c *Ctx) Probe(name string) { c.mu.Lock(); c.probes[name]++; c.mu.Unlock() }

// ProbeN adds n to a counter.
func (c *Ctx) ProbeN(name string, n int) { c.mu.Lock(); c.probes[name] += n; c.mu.Unlock() }

// Logf records an observable in the event log.
func (c *Ctx) Logf(format string, a ...interface{}) { c.S.Logf(format, a...) }

// OpDone counts a finished client operation and tells the scheduler progress was made.
func (c *Ctx) OpDone() {
	c.mu.Lock()
	c.ops++
	c.mu.Unlock()
	c.S.Progress()
}

// Prop is a property's generator and executor.
type Prop struct {
	ID  string
	Gen func(r *Rand, tier string) *Plan
	// Exec runs on the bubble's root goroutine. It starts client tasks with
	// c.S.GoClient and drives them with c.RunTasks.
	Exec func(c *Ctx)
	// Post, if set, runs after the bubble has ended (outside simulated time):
	// history checks such as linearizability.
	Post func(c *Ctx)
	// LeakClass, if set, makes tasks that are still blocked after teardown and
	// 30 further simulated seconds a violation of that class (properties that
	// say nothing waits forever); otherwise such runs are only counted.
	LeakClass string
	// RaceClass, if set, turns on the lock-discipline checker for shared maps
	// (race.go); a report is a violation of that class.
	RaceClass string
}

var registry = map[string]*Prop{}

// Register adds a property executor.
func Register(p *Prop) { registry[p.ID] = p }

// modes holds further harnesses of a property that live in another package than its
// main one; a plan selects one with the knob "mode".
var modes = map[string]map[int64]*Prop{}

// RegisterMode adds a harness for plans of property id whose knob "mode" equals mode.
func RegisterMode(id string, mode int64, p *Prop) {
	if modes[id] == nil {
		modes[id] = map[int64]*Prop{}
	}
	modes[id][mode] = p
}

// Mode returns the harness registered for (id, mode), or nil.
func Mode(id string, mode int64) *Prop { return modes[id][mode] }

func lookup(p *Plan) *Prop {
	if m := modes[p.Prop][p.Knob("mode", 0)]; m != nil {
		return m
	}
	return registry[p.Prop]
}

// RunTasks runs the scheduler until all current client tasks finish; a stuck
// run is recorded as a violation of class "stuck".
func (c *Ctx) RunTasks() bool {
	err := c.S.Run()
	if err != nil {
		st := err.(*Stuck)
		if st.Reason == "step-cap" {
			c.Inconclusive("step-cap")
		} else {
			c.Fail("stuck", "%s", st.Error())
		}
		return false
	}
	return true
}

// Do runs f as a single client task to completion.
func (c *Ctx) Do(key string, f func()) bool {
	c.S.GoClient(key, func() { c.guard(f) })
	return c.RunTasks()
}

// Go starts f as a client task (to be driven by RunTasks).
func (c *Ctx) Go(key string, f func()) { c.S.GoClient(key, func() { c.guard(f) }) }

// PanicAsViolation: when true (default) a panic in a client task is recorded
// as a violation of class "panic" instead of killing the process.
func (c *Ctx) guard(f func()) {
	defer func() {
		if r := recover(); r != nil {
			st := string(debug.Stack())
			c.Fail("panic", "%v\n%s", r, trimStack(st))
		}
	}()
	f()
}

func trimStack(s string) string {
	lines := strings.Split(s, "\n")
	var out []string
	for _, l := range lines {
		if strings.Contains(l, "/simrt/") || strings.Contains(l, "runtime/") {
			continue
		}
		out = append(out, l)
		if len(out) > 24 {
			break
		}
	}
	return strings.Join(out, "\n")
}

// RunPlan executes one plan in a fresh bubble and returns its result.
func RunPlan(t *testing.T, p *Plan, keepLog bool) (res *Result) {
	prop := lookup(p)
	if prop == nil {
		return &Result{Prop: p.Prop, Seed: p.Seed, Inconcl: "unknown property " + p.Prop}
	}
	dir, err := os.MkdirTemp(scratchRoot(), "run")
	if err != nil {
		panic(err)
	}
	defer os.RemoveAll(dir)
	res = &Result{Prop: p.Prop, Seed: p.Seed}
	cfg := p.Sched
	cfg.KeepLog = keepLog
	var c *Ctx
	func() {
		defer func() {
			if r := recover(); r != nil {
				// synctest reports goroutines left blocked in the bubble by panicking here.
				msg := fmt.Sprint(r)
				if strings.Contains(msg, "deadlock") || strings.Contains(msg, "blocked goroutines") {
					if c != nil && len(res.Leaked) == 0 {
						res.Leaked = []string{"bubble: " + msg}
					}
					return
				}
				panic(r)
			}
		}()
		synctest.Test(t, func(t *testing.T) {
			// the code under test draws from the global math/rand (resize job ids,
			// replica choice for exports); seeded per run (the test binary is built
			// with //go:debug randseednop=0, see harness/ext/zz_verif_c30_test.go)
			mrand.Seed(p.Seed)
			s := NewSched(cfg)
			c = &Ctx{Plan: p, S: s, Dir: dir, T: t, probes: map[string]int{}}
			if prop.RaceClass != "" {
				s.EnableRaceCheck()
			}
			Install(s)
			defer Install(nil)
			prop.Exec(c)
			if rs := s.Races(); len(rs) > 0 && !c.Stopped() {
				c.Fail(prop.RaceClass, "%s", rs[0])
			}
			res.Leaked = s.Drain(30 * time.Second)
			if len(res.Leaked) > 0 && prop.LeakClass != "" && !c.Stopped() {
				c.Fail(prop.LeakClass, "still blocked after shutdown: %s", strings.Join(res.Leaked, "; "))
			}
			res.Steps = s.Steps
			res.SimMS = s.SimTime.Milliseconds()
			res.Sleeps = s.ClockSleeps
			res.Adopted = s.Adopted
			res.LogHash = strconv.FormatUint(s.LogHash(), 16)
			res.SchedHash = strconv.FormatUint(s.SchedHash(), 16)
			for k, v := range s.Probes {
				c.probes[k] += v
			}
			if keepLog {
				res.Log = s.Log()
			}
		})
	}()
	Install(nil)
	if c != nil && prop.Post != nil && c.viol == nil && c.incon == "" {
		prop.Post(c)
	}
	if c != nil {
		res.Violation = c.viol
		res.Inconcl = c.incon
		res.Probes = c.probes
		res.Ops = c.ops
	}
	return res
}

func scratchRoot() string {
	if d := os.Getenv("VERIF_SCRATCH"); d != "" {
		return d
	}
	if fi, err := os.Stat("/dev/shm"); err == nil && fi.IsDir() {
		d := "/dev/shm/verif-scratch"
		os.MkdirAll(d, 0777)
		return d
	}
	return os.TempDir()
}

// Summary is what a child process reports for a batch of runs.
type Summary struct {
	Prop       string         `json:"prop"`
	Worker     int            `json:"worker"`
	Runs       int            `json:"runs"`
	Ops        int            `json:"ops"`
	Steps      int64          `json:"steps"`
	SimMS      int64          `json:"sim_ms"`
	Inconcl    map[string]int `json:"inconclusive"`
	Probes     map[string]int `json:"probes"`
	Leaks      int            `json:"leaks"`
	LeakSample []string       `json:"leak_sample,omitempty"`
	Adopted    int            `json:"adopted"`
	Hashes     []string       `json:"hashes"`
	Violations []ViolRec      `json:"violations"`
	ViolCount  map[string]int `json:"viol_count"`
	Samples    []*Plan        `json:"samples"`
	SeedLo     int64          `json:"seed_lo"`
	SeedHi     int64          `json:"seed_hi"`
	WallS      float64        `json:"wall_s"`
}

// ViolRec is a violation with the plan that produced it.
type ViolRec struct {
	Plan      *Plan      `json:"plan"`
	Violation *Violation `json:"violation"`
	LogHash   string     `json:"loghash"`
}

func writeJSON(path string, v interface{}) {
	b, err := json.Marshal(v)
	if err != nil {
		panic(err)
	}
	tmp := path + ".tmp"
	if err := os.WriteFile(tmp, b, 0666); err != nil {
		panic(err)
	}
	os.Rename(tmp, path)
}

// Main is the body of the single test function of the simulation binary.
//
//	VERIF_PLAN=file           run one plan (replay); result written to VERIF_OUT/replay.json
//	VERIF_PROP, VERIF_SEEDS=a:b[:stride], VERIF_BUDGET_S, VERIF_TIER, VERIF_WORKER, VERIF_OUT
func Main(t *testing.T) {
	out := os.Getenv("VERIF_OUT")
	if out == "" {
		t.Skip("VERIF_OUT not set")
	}
	os.MkdirAll(out, 0777)
	if pf := os.Getenv("VERIF_PLAN"); pf != "" {
		b, err := os.ReadFile(pf)
		if err != nil {
			t.Fatal(err)
		}
		var p Plan
		if err := json.Unmarshal(b, &p); err != nil {
			t.Fatal(err)
		}
		res := RunPlan(t, &p, os.Getenv("VERIF_KEEPLOG") != "")
		writeJSON(filepath.Join(out, "replay.json"), res)
		return
	}
	propID := os.Getenv("VERIF_PROP")
	prop := registry[propID]
	if prop == nil {
		var ids []string
		for k := range registry {
			ids = append(ids, k)
		}
		sort.Strings(ids)
		t.Fatalf("unknown property %q (have %v)", propID, ids)
	}
	tier := os.Getenv("VERIF_TIER")
	if tier == "" {
		tier = "quick"
	}
	worker, _ := strconv.Atoi(os.Getenv("VERIF_WORKER"))
	var lo, hi, stride int64 = 1, 1 << 60, 1
	if s := os.Getenv("VERIF_SEEDS"); s != "" {
		parts := strings.Split(s, ":")
		lo, _ = strconv.ParseInt(parts[0], 10, 64)
		if len(parts) > 1 {
			hi, _ = strconv.ParseInt(parts[1], 10, 64)
		}
		if len(parts) > 2 {
			stride, _ = strconv.ParseInt(parts[2], 10, 64)
		}
	}
	budget := 30.0
	if s := os.Getenv("VERIF_BUDGET_S"); s != "" {
		budget, _ = strconv.ParseFloat(s, 64)
	}
	maxViol := 3
	keepLog := os.Getenv("VERIF_KEEPLOG") != ""
	sum := &Summary{Prop: propID, Worker: worker, Inconcl: map[string]int{}, Probes: map[string]int{}, ViolCount: map[string]int{}, SeedLo: lo}
	start := time.Now()
	journal := filepath.Join(out, fmt.Sprintf("current-%d.json", worker))
	var logs []string
	for seed := lo; seed < hi; seed += stride {
		if time.Since(start).Seconds() > budget {
			break
		}
		p := prop.Gen(NewRand(uint64(seed)*0x9e3779b97f4a7c15+uint64(len(propID))), tier)
		p.Prop = propID
		p.Seed = seed
		p.Tier = tier
		writeJSON(journal, p)
		res := RunPlan(t, p, keepLog)
		sum.SeedHi = seed
		sum.Runs++
		sum.Ops += res.Ops
		sum.Steps += int64(res.Steps)
		sum.SimMS += res.SimMS
		sum.Adopted += res.Adopted
		for k, v := range res.Probes {
			sum.Probes[k] += v
		}
		if res.Inconcl != "" {
			sum.Inconcl[res.Inconcl]++
		}
		if len(res.Leaked) > 0 {
			sum.Leaks++
			if len(sum.LeakSample) < 3 {
				sum.LeakSample = append(sum.LeakSample, fmt.Sprintf("seed %d: %v", seed, res.Leaked))
			}
		}
		sum.Hashes = append(sum.Hashes, res.LogHash)
		if keepLog {
			logs = append(logs, fmt.Sprintf("== seed %d loghash %s", seed, res.LogHash))
			logs = append(logs, res.Log...)
		}
		if len(sum.Samples) < 2 {
			sum.Samples = append(sum.Samples, p)
		}
		if res.Violation != nil {
			sum.ViolCount[res.Violation.Class]++
			if sum.ViolCount[res.Violation.Class] <= maxViol && len(sum.Violations) < 40 {
				sum.Violations = append(sum.Violations, ViolRec{Plan: p, Violation: res.Violation, LogHash: res.LogHash})
			}
		}
	}
	os.Remove(journal)
	sum.WallS = time.Since(start).Seconds()
	writeJSON(filepath.Join(out, fmt.Sprintf("summary-%d.json", worker)), sum)
	if keepLog {
		os.WriteFile(filepath.Join(out, fmt.Sprintf("log-%d.txt", worker)), []byte(strings.Join(logs, "\n")+"\n"), 0666)
	}
}
