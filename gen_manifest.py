#!/usr/bin/env python3
"""Regenerates MANIFEST.json from props.py (claimed checks) and NA (not claimed)."""
import json, sys, os
sys.path.insert(0, os.path.dirname(os.path.abspath(__file__)))
from props import PROPS, NA, MAN

ids = ["C%02d" % i for i in range(1, 32)]
checks = []
for pid in ids:
    if pid not in PROPS or pid not in MAN:
        continue
    m = MAN[pid]
    checks.append({
        "property_id": pid,
        "quick_cmd": "./check %s --tier quick" % pid,
        "thorough_cmd": "./check %s --tier thorough" % pid,
        "evidence_file": "/verif/evidence/%s.json" % pid,
        "replay_cmd_template": "./check replay {path}",
        "engine": "simrt",
        "level_claimed": {"category": PROPS[pid]["level"], "text": m["text"], "design_ref": "DESIGN.md Appendix B (as built) and section 6 (plan), " + pid},
        "level_note": m["note"],
        "technique": m.get("technique", "deterministic simulation with fault injection (seeded schedules/faults, reference-model oracle)"),
    })
na = [{"property_id": pid, "reason": NA[pid]} for pid in ids if pid not in MAN]
man = {
    "version": 1,
    "setup_cmd": "./setup.sh",
    "hooks": {"guard": "verif", "enable": "no source hooks: checks build /repo through a generated `go test -overlay` (verifinst) with -tags verif", "baseline_off_cmd": "cd /repo && go test -mod=mod -vet=off -count=1 -timeout 25m ./...", "source_commits": [], "add_only": True},
    "engines": [{"name": "simrt", "path": "/verif/simrt", "serves_properties": [c["property_id"] for c in checks],
                 "kind_free_text": "deterministic single-runner scheduler over testing/synctest + source-instrumentation overlay (verifinst) + python driver (check) with delta-debugging shrinker"}],
    "checks": checks,
    "not_applicable": na,
    "notes": "See DESIGN.md. Checks exit 2 (never VIOLATION) on build or harness trouble.",
}
json.dump(man, open(os.path.join(os.path.dirname(os.path.abspath(__file__)), "MANIFEST.json"), "w"), indent=1)
print("claimed:", [c["property_id"] for c in checks])
