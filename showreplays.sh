#!/bin/bash
# prints the shrunk replays compactly
for f in /verif/replays/${1:-}*.json; do python3 - "$f" <<'PY'
import json,sys
r=json.load(open(sys.argv[1])); p=r['plan']
print('==',sys.argv[1].split('/')[-1], 'shrunk in', r['shrink_executions'])
print(' knobs', p.get('knobs'), 'faults', p.get('faults'), 'sched', p.get('sched'))
for ci,c in enumerate(p['clients']):
    print(' c%d'%ci, [(o['k'],o.get('i'),o.get('s')) if o.get('s') else (o['k'],o.get('i')) for o in c])
print(' viol', r['violation']['class'], r['violation']['msg'][:int(sys.argv[2]) if len(sys.argv)>2 else 500])
PY
done
