#!/bin/bash
# prints the shrunk replays compactly
DIR="$(dirname "$(readlink -f "$0")")"
for f in "$DIR"/replays/${1:-}*.json; do python3 - "$f" "${2:-500}" <<'PY'
import json,sys
r=json.load(open(sys.argv[1])); p=r['plan']
def short(l):
    if l and len(l)>14: return l[:12]+['...%d more'%(len(l)-12)]
    return l
print('==',sys.argv[1].split('/')[-1], 'shrunk in', r['shrink_executions'])
print(' knobs', p.get('knobs'), 'faults', p.get('faults'), 'sched', {k:v for k,v in p.get('sched',{}).items() if v})
for ci,c in enumerate(p['clients']):
    print(' c%d'%ci, [(o['k'],short(o.get('i')),o.get('s')) if o.get('s') else (o['k'],short(o.get('i'))) for o in c][:30])
print(' viol', r['violation']['class'], r['violation']['msg'][:int(sys.argv[2])])
PY
done
