// verifinst writes instrumented copies of pilosa source files for a
// `go build -overlay`: sync primitives, goroutine starts, mutating file-system
// calls, *os.File→interface conversions, ordered map iteration and channel
// operations are routed through verif/simrt. It never edits the repository.
//
// Rewriting is done with byte-offset edits on the original text (as go tool
// cover does) so line numbers are preserved.
package main

import (
	"encoding/json"
	"flag"
	"fmt"
	"go/ast"
	"go/token"
	"go/types"
	"os"
	"path/filepath"
	"sort"
	"strings"

	"golang.org/x/tools/go/packages"
)

type edit struct {
	pos, end int // byte offsets; pos==end is an insertion
	text     string
	seq      int
}

type fileInst struct {
	fset      *token.FileSet
	file      *ast.File
	info      *types.Info
	pkg       *types.Package
	src       []byte
	base      int
	name      string // short name for sites
	edits     []edit
	seq       int
	tokN      int
	stats     map[string]int
	warn      []string
	frozen    [][2]int          // spans replaced from the original text
	mapWrites map[ast.Expr]bool // index expressions that are assigned to
}

func (fi *fileInst) off(p token.Pos) int { return fi.fset.Position(p).Offset }

func (fi *fileInst) site(p token.Pos) string {
	pos := fi.fset.Position(p)
	return fmt.Sprintf("%s:%d", fi.name, pos.Line)
}

func (fi *fileInst) insert(p token.Pos, text string) {
	fi.seq++
	o := fi.off(p)
	fi.edits = append(fi.edits, edit{o, o, text, fi.seq})
}

func (fi *fileInst) replace(p, e token.Pos, text string) {
	fi.seq++
	fi.edits = append(fi.edits, edit{fi.off(p), fi.off(e), text, fi.seq})
	fi.frozen = append(fi.frozen, [2]int{fi.off(p), fi.off(e)})
}

// inFrozen reports whether p lies inside a span that a replacement has already rewritten
// from the original text (edits inside it would overlap).
func (fi *fileInst) inFrozen(p token.Pos) bool {
	o := fi.off(p)
	for _, f := range fi.frozen {
		if o >= f[0] && o < f[1] {
			return true
		}
	}
	return false
}

// sharedMap reports whether e denotes a map that other goroutines can reach by the same
// path: a struct field or a package-level variable of map type.
func (fi *fileInst) sharedMap(e ast.Expr) bool {
	t := fi.info.TypeOf(e)
	if t == nil {
		return false
	}
	if _, ok := t.Underlying().(*types.Map); !ok {
		return false
	}
	switch x := e.(type) {
	case *ast.SelectorExpr:
		if sel := fi.info.Selections[x]; sel != nil && sel.Kind() == types.FieldVal {
			return true
		}
		if v, ok := fi.info.Uses[x.Sel].(*types.Var); ok && v.Parent() == v.Pkg().Scope() {
			return true // pkg.Var
		}
	case *ast.Ident:
		if v, ok := fi.info.Uses[x].(*types.Var); ok && v.Pkg() != nil && v.Parent() == v.Pkg().Scope() {
			return true
		}
	}
	return false
}

// mapAccess wraps the map operand of an index expression, delete call or range clause in
// simrt.MapR / simrt.MapW (identity functions that report the access to the simulator's
// lock-discipline checker).
func (fi *fileInst) mapAccess(e ast.Expr, write bool) {
	if !fi.sharedMap(e) || fi.inFrozen(e.Pos()) {
		return
	}
	fn := "simrt.MapR("
	if write {
		fn = "simrt.MapW("
	}
	fi.insert(e.Pos(), fn)
	fi.insert(e.End(), fmt.Sprintf(", %q)", fi.site(e.Pos())))
	fi.stats["mapacc"]++
}

func (fi *fileInst) text(n ast.Node) string { return string(fi.src[fi.off(n.Pos()):fi.off(n.End())]) }

func isNamed(t types.Type, pkg, name string) bool {
	if t == nil {
		return false
	}
	n, ok := t.(*types.Named)
	if !ok {
		return false
	}
	o := n.Obj()
	return o != nil && o.Name() == name && o.Pkg() != nil && (o.Pkg().Path() == pkg || strings.HasSuffix(o.Pkg().Path(), "/"+pkg))
}

func deref(t types.Type) (types.Type, bool) {
	if p, ok := t.(*types.Pointer); ok {
		return p.Elem(), true
	}
	return t, false
}

// recvExpr builds the text for the address of the sync object a method is called on.
// sel is the selector of the method call; returns "" if not addressable by our scheme.
func (fi *fileInst) recvAddr(sel *ast.SelectorExpr, want func(types.Type) bool) (prefix, suffix string, ok bool) {
	s := fi.info.Selections[sel]
	if s == nil {
		return "", "", false
	}
	xt := fi.info.TypeOf(sel.X)
	if xt == nil {
		return "", "", false
	}
	idx := s.Index()
	// Walk embedded fields (all but the last index, which is the method).
	t := xt
	path := ""
	for _, i := range idx[:len(idx)-1] {
		bt, _ := deref(t)
		st, ok := bt.Underlying().(*types.Struct)
		if !ok {
			return "", "", false
		}
		f := st.Field(i)
		path += "." + f.Name()
		t = f.Type()
	}
	bt, isPtr := deref(t)
	if !want(bt) {
		return "", "", false
	}
	if isPtr {
		return "(", path + ")", true
	}
	return "&(", path + ")", true
}

func (fi *fileInst) methodCall(call *ast.CallExpr) {
	sel, ok := call.Fun.(*ast.SelectorExpr)
	if !ok {
		return
	}
	s := fi.info.Selections[sel]
	if s == nil || s.Kind() != types.MethodVal {
		return
	}
	fn, ok := s.Obj().(*types.Func)
	if !ok {
		return
	}
	sig := fn.Type().(*types.Signature)
	if sig.Recv() == nil {
		return
	}
	rt, _ := deref(sig.Recv().Type())
	name := fn.Name()
	simple := func(helper string, withSite bool, want func(types.Type) bool) {
		pre, suf, ok := fi.recvAddr(sel, want)
		if !ok {
			fi.warn = append(fi.warn, fi.site(call.Pos())+": cannot address receiver of "+name)
			return
		}
		fi.insert(call.Pos(), "simrt."+helper+"("+pre)
		tail := suf
		if withSite {
			tail += fmt.Sprintf(", %q", fi.site(call.Pos()))
		}
		fi.replace(sel.X.End(), call.End(), tail+")")
		fi.stats["sync"]++
	}
	switch {
	case isNamed(rt, "sync", "Mutex"):
		w := func(t types.Type) bool { return isNamed(t, "sync", "Mutex") }
		switch name {
		case "Lock":
			simple("MLock", true, w)
		case "Unlock":
			simple("MUnlock", false, w)
		}
	case isNamed(rt, "sync", "RWMutex"):
		w := func(t types.Type) bool { return isNamed(t, "sync", "RWMutex") }
		switch name {
		case "Lock":
			simple("WLock", true, w)
		case "Unlock":
			simple("WUnlock", false, w)
		case "RLock":
			simple("RLock", true, w)
		case "RUnlock":
			simple("RUnlock", false, w)
		}
	case isNamed(rt, "sync", "Cond"):
		w := func(t types.Type) bool { return isNamed(t, "sync", "Cond") }
		switch name {
		case "Wait":
			simple("CondWait", false, w)
		case "Broadcast":
			simple("CondBroadcast", false, w)
		case "Signal":
			simple("CondSignal", false, w)
		}
	case isNamed(rt, "sync", "WaitGroup"):
		if name == "Wait" {
			simple("WGWait", false, func(t types.Type) bool { return isNamed(t, "sync", "WaitGroup") })
		}
	case isNamed(rt, "errgroup", "Group"):
		if name == "Go" && len(call.Args) == 1 {
			fi.insert(call.Args[0].Pos(), fmt.Sprintf("simrt.WrapGo(%q, ", fi.site(call.Pos())))
			fi.insert(call.Args[0].End(), ")")
			fi.stats["go"]++
		}
	case isNamed(rt, "os", "File"):
		helper := map[string]string{"Write": "FWrite", "WriteString": "FWriteString", "WriteAt": "FWriteAt", "Truncate": "FTruncate", "Sync": "FSync"}[name]
		if helper == "" {
			return
		}
		xt := fi.info.TypeOf(sel.X)
		if _, isPtr := deref(xt); !isPtr || len(s.Index()) != 1 {
			return
		}
		fi.insert(call.Pos(), "simrt."+helper+"(")
		if len(call.Args) > 0 {
			fi.replace(sel.X.End(), call.Lparen+1, ", ")
		} else {
			fi.replace(sel.X.End(), call.Lparen+1, "")
		}
		fi.stats["fs"]++
	}
}

var osFuncs = map[string]string{
	"os.Create": "OSCreate", "os.OpenFile": "OSOpenFile", "os.Rename": "OSRename", "os.Remove": "OSRemove",
	"os.RemoveAll": "OSRemoveAll", "os.Mkdir": "OSMkdir", "os.MkdirAll": "OSMkdirAll", "os.Truncate": "OSTruncate",
	"os.WriteFile": "WriteFile", "io/ioutil.WriteFile": "WriteFile",
}

func (fi *fileInst) funcCall(call *ast.CallExpr) {
	sel, ok := call.Fun.(*ast.SelectorExpr)
	if !ok {
		return
	}
	id, ok := sel.X.(*ast.Ident)
	if !ok {
		return
	}
	pn, ok := fi.info.Uses[id].(*types.PkgName)
	if !ok {
		return
	}
	if h := osFuncs[pn.Imported().Path()+"."+sel.Sel.Name]; h != "" {
		fi.replace(sel.Pos(), sel.End(), "simrt."+h)
		fi.stats["fs"]++
	}
}

func isOSFilePtr(t types.Type) bool {
	bt, p := deref(t)
	return p && isNamed(bt, "os", "File")
}

func isIface(t types.Type) bool {
	if t == nil {
		return false
	}
	_, ok := t.Underlying().(*types.Interface)
	return ok
}

func (fi *fileInst) wrapFile(e ast.Expr) {
	fi.insert(e.Pos(), "simrt.WrapFile(")
	fi.insert(e.End(), ")")
	fi.stats["fileconv"]++
}

// conversions finds *os.File values passed or assigned to interface types.
func (fi *fileInst) conversions(n ast.Node) {
	switch x := n.(type) {
	case *ast.CallExpr:
		ft := fi.info.TypeOf(x.Fun)
		sig, ok := ft.(*types.Signature)
		if !ok {
			return
		}
		// skip calls already rewritten as *os.File methods
		for i, a := range x.Args {
			at := fi.info.TypeOf(a)
			if at == nil || !isOSFilePtr(at) {
				continue
			}
			var pt types.Type
			if sig.Variadic() && i >= sig.Params().Len()-1 {
				pt = sig.Params().At(sig.Params().Len() - 1).Type().(*types.Slice).Elem()
			} else if i < sig.Params().Len() {
				pt = sig.Params().At(i).Type()
			}
			if isIface(pt) && hasWrite(pt) {
				fi.wrapFile(a)
			}
		}
	case *ast.AssignStmt:
		if len(x.Lhs) != len(x.Rhs) {
			return
		}
		for i, r := range x.Rhs {
			rt := fi.info.TypeOf(r)
			if rt == nil || !isOSFilePtr(rt) {
				continue
			}
			lt := fi.info.TypeOf(x.Lhs[i])
			if isIface(lt) && hasWrite(lt) {
				fi.wrapFile(r)
			}
		}
	}
}

func hasWrite(t types.Type) bool {
	it, ok := t.Underlying().(*types.Interface)
	if !ok {
		return false
	}
	if it.NumMethods() == 0 {
		return false // interface{}: formatting/logging of a file; leave alone
	}
	for i := 0; i < it.NumMethods(); i++ {
		switch it.Method(i).Name() {
		case "Write", "WriteString", "WriteAt", "ReadFrom":
			return true
		}
	}
	return false
}

func orderedKey(t types.Type) bool {
	b, ok := t.Underlying().(*types.Basic)
	if !ok {
		return false
	}
	return b.Info()&(types.IsInteger|types.IsString|types.IsFloat) != 0
}

func containsCall(e ast.Expr) bool {
	found := false
	ast.Inspect(e, func(n ast.Node) bool {
		switch n.(type) {
		case *ast.CallExpr, *ast.UnaryExpr, *ast.IndexExpr:
			found = true
		}
		return !found
	})
	return found
}

func (fi *fileInst) mapRange(r *ast.RangeStmt) {
	t := fi.info.TypeOf(r.X)
	if t == nil {
		return
	}
	mt, ok := t.Underlying().(*types.Map)
	if !ok {
		return
	}
	lessFn := ""
	if !orderedKey(mt.Key()) {
		lessFn = fi.lessFunc(mt.Key())
		if lessFn == "" {
			fi.stats["maprange_unordered"]++
			fi.warn = append(fi.warn, fi.site(r.Pos())+": map range with unordered key type "+mt.Key().String())
			return
		}
	}
	if r.Tok != token.DEFINE && !(r.Key == nil && r.Value == nil) {
		fi.stats["maprange_skipped"]++
		fi.warn = append(fi.warn, fi.site(r.Pos())+": map range with '=' assignment left alone")
		return
	}
	name := func(e ast.Expr) string {
		if e == nil {
			return "_"
		}
		if id, ok := e.(*ast.Ident); ok {
			return id.Name
		}
		return "_"
	}
	k, v := name(r.Key), name(r.Value)
	fi.tokN++
	kk := k
	if kk == "_" {
		kk = fmt.Sprintf("__vk%d", fi.tokN)
	}
	m := fi.text(r.X)
	if fi.sharedMap(r.X) {
		m = fmt.Sprintf("simrt.MapR(%s, %q)", m, fi.site(r.X.Pos()))
		fi.stats["mapacc"]++
	}
	var head string
	if lessFn != "" {
		okv := fmt.Sprintf("__vo%d", fi.tokN)
		mv := fmt.Sprintf("__vm%d", fi.tokN)
		vv := vOr(v, fi.tokN)
		// the map expression is evaluated once, in the range clause of an outer single-iteration loop
		head = fmt.Sprintf("for _, %s := range simrt.One(%s) { for _, %s := range simrt.SortedKeysFunc(%s, %s) { %s, %s := %s[%s]; if !%s { continue }; _, _ = %s, %s; {", mv, m, kk, mv, lessFn, vv, okv, mv, kk, okv, kk, vv)
		fi.insert(r.Body.Rbrace, "}}")
	} else if containsCall(r.X) {
		ev := fmt.Sprintf("__ve%d", fi.tokN)
		head = fmt.Sprintf("for _, %s := range simrt.SortedEntries(%s) { %s, %s := %s.K, %s.V; _, _ = %s, %s; {", ev, m, kkOr(k, kk), vOr(v, fi.tokN), ev, ev, kkOr(k, kk), vOr(v, fi.tokN))
	} else {
		okv := fmt.Sprintf("__vo%d", fi.tokN)
		vv := vOr(v, fi.tokN)
		head = fmt.Sprintf("for _, %s := range simrt.SortedKeys(%s) { %s, %s := (%s)[%s]; if !%s { continue }; _, _ = %s, %s; {", kk, m, vv, okv, m, kk, okv, kk, vv)
	}
	if lessFn == "" {
		fi.insert(r.Body.Rbrace, "}")
	}
	fi.replace(r.For, r.Body.Lbrace+1, head)
	fi.stats["maprange"]++
}

// lessFunc returns the text of a less function for struct keys whose fields are
// all ordered basic types, and for pointers to structs with a string ID field.
func (fi *fileInst) lessFunc(t types.Type) string {
	q := func(p *types.Package) string {
		if p == fi.pkg {
			return ""
		}
		return p.Name()
	}
	tn := types.TypeString(t, q)
	if pt, ok := t.(*types.Pointer); ok {
		if st, ok := pt.Elem().Underlying().(*types.Struct); ok {
			for i := 0; i < st.NumFields(); i++ {
				if st.Field(i).Name() == "ID" && orderedKey(st.Field(i).Type()) {
					return fmt.Sprintf("func(a, b %s) bool { return a.ID < b.ID }", tn)
				}
			}
		}
		return ""
	}
	st, ok := t.Underlying().(*types.Struct)
	if !ok || st.NumFields() == 0 {
		return ""
	}
	body := ""
	for i := 0; i < st.NumFields(); i++ {
		f := st.Field(i)
		if !orderedKey(f.Type()) {
			return ""
		}
		body += fmt.Sprintf("if a.%s != b.%s { return a.%s < b.%s }; ", f.Name(), f.Name(), f.Name(), f.Name())
	}
	return fmt.Sprintf("func(a, b %s) bool { %sreturn false }", tn, body)
}

func kkOr(k, kk string) string {
	if k == "_" {
		return kk
	}
	return k
}

func vOr(v string, n int) string {
	if v == "_" {
		return fmt.Sprintf("__vv%d", n)
	}
	return v
}

// hasChanOp reports whether stmt contains a channel receive or send outside nested function literals.
func (fi *fileInst) hasChanOp(n ast.Node) bool {
	found := false
	ast.Inspect(n, func(x ast.Node) bool {
		if found {
			return false
		}
		switch y := x.(type) {
		case *ast.FuncLit:
			return false
		case *ast.UnaryExpr:
			if y.Op == token.ARROW {
				found = true
			}
		case *ast.SendStmt:
			found = true
		}
		return !found
	})
	return found
}

func (fi *fileInst) stmtList(list []ast.Stmt) {
	for _, st := range list {
		inner := st
		if l, ok := inner.(*ast.LabeledStmt); ok {
			inner = l.Stmt
		}
		switch x := inner.(type) {
		case *ast.SelectStmt:
			fi.insert(st.Pos(), `simrt.Yield("select"); `)
			for _, c := range x.Body.List {
				cc := c.(*ast.CommClause)
				fi.insert(cc.Colon+1, ` simrt.Yield("selected"); `)
			}
			fi.stats["chan"]++
		case *ast.RangeStmt:
			if t := fi.info.TypeOf(x.X); t != nil {
				if _, ok := t.Underlying().(*types.Chan); ok {
					fi.insert(st.Pos(), `simrt.Yield("chanrange"); `)
					fi.insert(x.Body.Lbrace+1, ` simrt.Yield("chanrecv"); `)
					fi.stats["chan"]++
				}
			}
		case *ast.ExprStmt, *ast.AssignStmt, *ast.SendStmt, *ast.DeclStmt:
			if fi.hasChanOp(inner) {
				fi.insert(st.Pos(), `simrt.Yield("chan"); `)
				fi.insert(st.End(), `; simrt.Yield("chandone")`)
				fi.stats["chan"]++
			}
		case *ast.ReturnStmt, *ast.IfStmt, *ast.ForStmt, *ast.SwitchStmt:
			// only the init/cond/tag parts, not nested blocks
			var parts []ast.Node
			switch y := x.(type) {
			case *ast.ReturnStmt:
				for _, r := range y.Results {
					parts = append(parts, r)
				}
			case *ast.IfStmt:
				if y.Init != nil {
					parts = append(parts, y.Init)
				}
				parts = append(parts, y.Cond)
			case *ast.ForStmt:
				if y.Init != nil {
					parts = append(parts, y.Init)
				}
				if y.Cond != nil {
					parts = append(parts, y.Cond)
				}
			case *ast.SwitchStmt:
				if y.Init != nil {
					parts = append(parts, y.Init)
				}
				if y.Tag != nil {
					parts = append(parts, y.Tag)
				}
			}
			for _, p := range parts {
				if fi.hasChanOp(p) {
					fi.insert(st.Pos(), `simrt.Yield("chan"); `)
					fi.stats["chan"]++
					break
				}
			}
		}
	}
}

func (fi *fileInst) goStmt(g *ast.GoStmt) {
	fi.tokN++
	tok := fmt.Sprintf("__vtok%d", fi.tokN)
	site := fi.site(g.Pos())
	if fl, ok := g.Call.Fun.(*ast.FuncLit); ok {
		fi.insert(g.Pos(), fmt.Sprintf("%s := simrt.Spawn(%q); ", tok, site))
		fi.insert(fl.Body.Lbrace+1, fmt.Sprintf(" simrt.GoStart(%s); defer simrt.GoEnd(); ", tok))
	} else {
		// go f(args): arguments are evaluated inside the new goroutine after this rewrite.
		fi.insert(g.Pos(), fmt.Sprintf("%s := simrt.Spawn(%q); ", tok, site))
		fi.insert(g.Call.Pos(), fmt.Sprintf("func() { simrt.GoStart(%s); defer simrt.GoEnd(); ", tok))
		fi.insert(g.Call.End(), " }()")
		fi.warn = append(fi.warn, site+": go f(args) rewritten with late argument evaluation")
	}
	fi.stats["go"]++
}

func (fi *fileInst) run() {
	fi.mapWrites = map[ast.Expr]bool{}
	ast.Inspect(fi.file, func(n ast.Node) bool {
		switch x := n.(type) {
		case *ast.AssignStmt:
			for _, l := range x.Lhs {
				fi.mapWrites[l] = true
			}
		case *ast.IncDecStmt:
			fi.mapWrites[x.X] = true
		}
		return true
	})
	ast.Inspect(fi.file, func(n ast.Node) bool {
		switch x := n.(type) {
		case *ast.IndexExpr:
			fi.mapAccess(x.X, fi.mapWrites[x])
		case *ast.CallExpr:
			if id, ok := x.Fun.(*ast.Ident); ok && id.Name == "delete" && len(x.Args) == 2 {
				if _, isBuiltin := fi.info.Uses[id].(*types.Builtin); isBuiltin {
					fi.mapAccess(x.Args[0], true)
				}
			}
			fi.methodCall(x)
			fi.funcCall(x)
			fi.conversions(x)
		case *ast.AssignStmt:
			fi.conversions(x)
		case *ast.RangeStmt:
			fi.mapRange(x)
		case *ast.GoStmt:
			fi.goStmt(x)
		case *ast.BlockStmt:
			fi.stmtList(x.List)
		case *ast.CaseClause:
			fi.stmtList(x.Body)
		case *ast.CommClause:
			fi.stmtList(x.Body)
		}
		return true
	})
}

func (fi *fileInst) apply() []byte {
	if len(fi.edits) == 0 {
		return nil
	}
	// import + keepalives
	pkgEnd := fi.file.Name.End()
	fi.insert(pkgEnd, `; import simrt "verif/simrt"`)
	keep := ""
	for _, imp := range fi.file.Imports {
		if imp.Name != nil {
			continue
		}
		switch imp.Path.Value {
		case `"os"`:
			keep += "\nvar _ = os.Getpid"
		case `"io/ioutil"`:
			keep += "\nvar _ = ioutil.Discard"
		}
	}
	sort.SliceStable(fi.edits, func(i, j int) bool {
		a, b := fi.edits[i], fi.edits[j]
		if a.pos != b.pos {
			return a.pos < b.pos
		}
		// insertions before replacements starting at same point; insertion order kept
		if (a.pos == a.end) != (b.pos == b.end) {
			return a.pos == a.end
		}
		return a.seq < b.seq
	})
	var out []byte
	last := 0
	for _, e := range fi.edits {
		if e.pos < last {
			fmt.Fprintf(os.Stderr, "verifinst: overlapping edit in %s at offset %d (%q)\n", fi.name, e.pos, e.text)
			os.Exit(3)
		}
		out = append(out, fi.src[last:e.pos]...)
		out = append(out, e.text...)
		last = e.end
	}
	out = append(out, fi.src[last:]...)
	out = append(out, keep...)
	out = append(out, '\n')
	return out
}

type strs []string

func (s *strs) String() string     { return strings.Join(*s, ",") }
func (s *strs) Set(v string) error { *s = append(*s, v); return nil }

func main() {
	repo := flag.String("repo", "/repo", "repository root")
	out := flag.String("out", "", "output directory")
	var pkgs, adds, stubs strs
	flag.Var(&pkgs, "pkg", "package pattern to instrument (relative to repo), repeatable")
	flag.Var(&adds, "add", "dst=src: add harness file src as overlay file dst, repeatable")
	flag.Var(&stubs, "stubtests", "directory (relative to repo) whose existing _test.go files are replaced by empty stubs")
	tags := flag.String("tags", "", "build tags")
	flag.Parse()
	if *out == "" || len(pkgs) == 0 {
		fmt.Fprintln(os.Stderr, "usage: verifinst -out dir -pkg . -pkg ./roaring ...")
		os.Exit(2)
	}
	ovdir := filepath.Join(*out, "ov")
	if err := os.MkdirAll(ovdir, 0777); err != nil {
		panic(err)
	}
	cfg := &packages.Config{
		Mode: packages.NeedName | packages.NeedFiles | packages.NeedCompiledGoFiles | packages.NeedSyntax | packages.NeedTypes | packages.NeedTypesInfo | packages.NeedImports,
		Dir:  *repo,
		Env:  append(os.Environ(), "GOFLAGS=-mod=mod", "GOPROXY=off", "GOSUMDB=off"),
	}
	if *tags != "" {
		cfg.BuildFlags = []string{"-tags", *tags}
	}
	loaded, err := packages.Load(cfg, pkgs...)
	if err != nil {
		fmt.Fprintln(os.Stderr, "verifinst: load:", err)
		os.Exit(2)
	}
	bad := false
	for _, p := range loaded {
		for _, e := range p.Errors {
			fmt.Fprintln(os.Stderr, "verifinst:", e)
			bad = true
		}
	}
	if bad {
		os.Exit(2)
	}
	replace := map[string]string{}
	total := map[string]int{}
	var warns []string
	for _, p := range loaded {
		for i, f := range p.Syntax {
			path := p.CompiledGoFiles[i]
			if !strings.HasPrefix(path, *repo+"/") || strings.HasSuffix(path, "_test.go") {
				continue
			}
			rel := strings.TrimPrefix(path, *repo+"/")
			src, err := os.ReadFile(path)
			if err != nil {
				panic(err)
			}
			fi := &fileInst{fset: p.Fset, file: f, info: p.TypesInfo, pkg: p.Types, src: src, name: rel, stats: map[string]int{}}
			fi.run()
			res := fi.apply()
			for k, v := range fi.stats {
				total[k] += v
			}
			warns = append(warns, fi.warn...)
			if res == nil {
				continue
			}
			dst := filepath.Join(ovdir, strings.ReplaceAll(rel, "/", "__"))
			if err := os.WriteFile(dst, res, 0666); err != nil {
				panic(err)
			}
			replace[path] = dst
			total["files"]++
		}
	}
	for _, d := range stubs {
		dir := filepath.Join(*repo, d)
		ents, _ := os.ReadDir(dir)
		for _, e := range ents {
			if !strings.HasSuffix(e.Name(), "_test.go") {
				continue
			}
			src, err := os.ReadFile(filepath.Join(dir, e.Name()))
			if err != nil {
				continue
			}
			pkgName := ""
			for _, line := range strings.Split(string(src), "\n") {
				if strings.HasPrefix(line, "package ") {
					pkgName = strings.Fields(line)[1]
					break
				}
			}
			if pkgName == "" {
				continue
			}
			dst := filepath.Join(ovdir, "stub__"+strings.ReplaceAll(filepath.Join(d, e.Name()), "/", "__"))
			os.WriteFile(dst, []byte("package "+pkgName+"\n"), 0666)
			replace[filepath.Join(dir, e.Name())] = dst
			total["stubbed_tests"]++
		}
	}
	for _, a := range adds {
		kv := strings.SplitN(a, "=", 2)
		if len(kv) != 2 {
			fmt.Fprintln(os.Stderr, "verifinst: bad -add", a)
			os.Exit(2)
		}
		replace[kv[0]] = kv[1]
	}
	ov, _ := json.MarshalIndent(map[string]interface{}{"Replace": replace}, "", " ")
	if err := os.WriteFile(filepath.Join(*out, "overlay.json"), ov, 0666); err != nil {
		panic(err)
	}
	sort.Strings(warns)
	st, _ := json.Marshal(map[string]interface{}{"stats": total, "warnings": warns})
	os.WriteFile(filepath.Join(*out, "inst.json"), st, 0666)
	fmt.Println(string(st))
}
